#!/usr/bin/env bash
# usage: tools/seed_queue.sh C06[:C06,C11] C09 ...   (sequential; results appended to /tmp/seedres-all.txt)
# each argument is <seed property>[:<comma separated checks to run>] (default: the seed's own property)
for A in "$@"; do
  P="${A%%:*}"; C="${A#*:}"; [ "$C" = "$A" ] && C="$P"
  for s in a b; do
    d=/tmp/seed-$P/_seed/$s
    [ -f "$d/patch.diff" ] || { echo "RESULT $P-$s: no patch" >> /tmp/seedres-all.txt; continue; }
    "$(dirname "$0")/verify_seed.sh" "$d" "$C" "$P-$s" >> /tmp/seedres-all.txt 2>&1
  done
done
echo "QUEUE-DONE $*" >> /tmp/seedres-all.txt
