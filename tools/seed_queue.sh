#!/usr/bin/env bash
# usage: [SEED_ROOT=/tmp/seed-] [LETTERS="a b"] [OUT=/tmp/seedres-all.txt] tools/seed_queue.sh C06[:C06,C11] C09 ...
# each argument is <seed property>[:<comma separated checks to run>] (default: the seed's own property); sequential
ROOT="${SEED_ROOT:-/tmp/seed-}"; LET="${LETTERS:-a b}"; OUT="${OUT:-/tmp/seedres-all.txt}"
for A in "$@"; do
  P="${A%%:*}"; C="${A#*:}"; [ "$C" = "$A" ] && C="$P"
  for s in $LET; do
    d="$ROOT$P/_seed/$s"
    [ -f "$d/patch.diff" ] || { echo "RESULT $P-$s: no patch" >> "$OUT"; continue; }
    /verif/tools/verify_seed.sh "$d" "$C" "$P-$s" >> "$OUT" 2>&1
  done
done
echo "QUEUE-DONE $*" >> "$OUT"
