#!/usr/bin/env python3
"""Run the repository's pinned test command (guard OFF) and compare with BASELINE.json's stable_pass.

usage: tools/baseline.py [-n workers]    exit 0 iff every stable_pass test passes.
"""
import json
import os
import subprocess
import sys
import tempfile
import xml.etree.ElementTree as ET

REPO = os.environ.get("ASPIRE_REPO", "/repo")
BASE = "/root/.vp/BASELINE.json"


def main():
    workers = None
    if "-n" in sys.argv:
        workers = sys.argv[sys.argv.index("-n") + 1]
    env = dict(os.environ)
    env.pop("ASPIRE_VERIF", None)
    fd, xml = tempfile.mkstemp(suffix=".junit.xml")
    os.close(fd)
    cmd = ["/venv/bin/python", "-m", "pytest", "-ra", "-q", "-p", "no:cacheprovider", "--timeout=900",
           "--continue-on-collection-errors", f"--junitxml={xml}"]
    if workers:
        cmd += ["-n", workers]
    subprocess.run(cmd, cwd=REPO, env=env, stdout=subprocess.DEVNULL, stderr=subprocess.DEVNULL)
    passed = set()
    for tc in ET.parse(xml).getroot().iter("testcase"):
        if not any(ch.tag in ("failure", "error", "skipped") for ch in tc):
            passed.add(f"{tc.get('classname')}::{tc.get('name')}")
    os.unlink(xml)
    want = json.load(open(BASE))["stable_pass"] if os.path.exists(BASE) else []
    missing = [t for t in want if t not in passed]
    print(f"passed={len(passed)} baseline={len(want)} baseline_missing={len(missing)}")
    for t in missing[:20]:
        print("MISSING", t)
    return 1 if missing else 0


if __name__ == "__main__":
    sys.exit(main())
