#!/usr/bin/env bash
# usage: tools/thorough_sweep.sh [divisor] [shards] [seed] [IDs...]  - runs the thorough tier of each check with budget/divisor examples; one line per check
DIV="${1:-1}"; SH="${2:-16}"; SEED="${3:-1}"; shift 3 2>/dev/null
IDS="${*:-C02 C04 C09 C16 C19 C06 C07 C08 C18 C05 C13 C10 C17 C12 C14 C15 C20 C11 C03 C01}"
cd "$(dirname "$0")/.."
for c in $IDS; do
  b=$(grep -oE '"thorough": [0-9]+' "pbt/props/$(echo $c | tr A-Z a-z).py" | head -1 | grep -oE '[0-9]+')
  n=$(( b / DIV )); [ "$n" -lt 16 ] && n=16
  s=$(date +%s)
  ./check "$c" --tier thorough --shards "$SH" --seed "$SEED" --examples "$n" > "thor-$c.log" 2>&1; rc=$?
  echo "$c rc=$rc $(( $(date +%s) - s ))s examples=$n $(grep -E "^$c thorough" "thor-$c.log" | cut -c1-140)"
  grep -E "^violation|^HARNESS" "thor-$c.log" | cut -c1-300
done
echo SWEEP-DONE
