#!/usr/bin/env bash
# usage: tools/quiet_sweep.sh "<seeds>" [IDs...]  - quick tier of every check at several VERIF_SEED values on the unchanged tree; prints one line per run
SEEDS="${1:-2 3 4 5 6}"; shift 1 2>/dev/null
IDS="${*:-C01 C02 C03 C04 C05 C06 C07 C08 C09 C10 C11 C12 C13 C14 C15 C16 C17 C18 C19 C20}"
cd "$(dirname "$0")/.."
for sd in $SEEDS; do
  for c in $IDS; do
    s=$(date +%s)
    VERIF_SEED=$sd ./check "$c" --tier quick > "quiet-$c-$sd.log" 2>&1; rc=$?
    echo "seed=$sd $c rc=$rc $(( $(date +%s) - s ))s $(grep -E "^$c quick" "quiet-$c-$sd.log" | cut -c1-120)"
    grep -E "^violation|^HARNESS" "quiet-$c-$sd.log" | cut -c1-300
  done
done
echo QUIET-SWEEP-DONE
