#!/usr/bin/env bash
# usage: tools/quick_seeds.sh <seed root prefix, e.g. /tmp/seed4-> "<letters>" <ID[:check,check]> ...
# quick look (no demo / pinned tests): applies each seed patch in a scratch worktree and runs the named checks (default: the seed's own)
ROOT="$1"; LET="$2"; shift 2
J="${JOBS:-4}"
for A in "$@"; do
  P="${A%%:*}"; C="${A#*:}"; [ "$C" = "$A" ] && C="$P"
  for l in $LET; do
    for c in ${C//,/ }; do
      ( r=$("$(dirname "$0")/run_mutant.sh" "$ROOT$P/_seed/$l/patch.diff" "$c" 2>&1 | grep -v "resource_tracker\|^KNOWN")
        echo "$P-$l $c: $(echo "$r" | tail -1 | cut -d' ' -f1)  $(echo "$r" | grep -m1 '^violation' | cut -c1-200)" ) &
      while [ "$(jobs -r | wc -l)" -ge "$J" ]; do sleep 3; done
    done
  done
done
wait
