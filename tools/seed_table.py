#!/usr/bin/env python3
"""Print a markdown table of /verif/seeded/*/meta.json (used for DESIGN.md section 5.2)."""
import json
from pathlib import Path

root = Path(__file__).resolve().parent.parent / "seeded"
print("| seed | property | what it changes / needs | demo clean/patched | pinned tests | checks |")
print("|---|---|---|---|---|---|")
for d in sorted(root.iterdir()):
    m = d / "meta.json"
    if not m.exists():
        continue
    j = json.loads(m.read_text())
    c = j.get("confirmed", {})
    summ = (j.get("summary") or "").replace("|", "/").replace("\n", " ")
    needs = (j.get("needs") or "").replace("|", "/").replace("\n", " ")
    print(f"| {d.name} | {j.get('property')} | {summ[:220]} **Needs:** {needs[:220]} | {c.get('demo_exit_clean')}/{c.get('demo_exit_patched')} | "
          f"{(c.get('pinned_tests_with_patch') or '')[:40]} | {j.get('check_result')} |")
