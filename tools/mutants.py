#!/usr/bin/env python3
"""Hand-made breaking mutants of aspire, used to test the sensitivity of each check.

usage: tools/mutants.py list
       tools/mutants.py run [PROP ...] [--jobs k] [--args "..."]   apply each mutant in a scratch worktree, run ./check, report
Each mutant is (name, property ids it should break, file, old text, new text); patches are generated against
/repo's current HEAD with git, so they survive line shifts.
"""
import os
import subprocess
import sys
import tempfile
from concurrent.futures import ThreadPoolExecutor
from pathlib import Path

ROOT = Path(__file__).resolve().parent.parent
S = "src/aspire/"

MUTANTS = [
    # ---- C02
    ("c02-drop-logN", ["C02", "C01"], S + "samples.py",
     "self.log_evidence = asarray(logsumexp(self.log_w), self.xp) - math.log(\n            len(self.x)\n        )",
     "self.log_evidence = asarray(logsumexp(self.log_w), self.xp)"),
    ("c02-logw-plus-q", ["C02", "C01"], S + "samples.py",
     "self.log_w = self.log_likelihood + self.log_prior - self.log_q",
     "self.log_w = self.log_likelihood + self.log_prior + self.log_q"),
    ("c02-unshifted-lse", ["C02"], S + "utils.py",
     "    c = x.max()\n    return c + xp.log(xp.sum(xp.exp(x - c), axis=axis))",
     "    return xp.log(xp.sum(xp.exp(x), axis=axis))"),
    ("c02-rejection-ge", ["C02"], S + "samples.py",
     "        accept = log_w > log_u\n", "        accept = log_w < log_u\n"),
    ("c02-ess-unsquared", ["C02"], S + "samples.py",
     "            asarray(logsumexp(log_w) * 2 - logsumexp(log_w * 2), self.xp)\n        )\n\n    @property\n    def scaled_weights",
     "            asarray(logsumexp(log_w) * 2 - logsumexp(log_w), self.xp)\n        )\n\n    @property\n    def scaled_weights"),
    ("c02-rejection-misaligned-prior", ["C02"], S + "samples.py",
     "            log_prior=self.log_prior[accept],\n            dtype=self.dtype,",
     "            log_prior=self.log_prior[: int(accept.sum())],\n            dtype=self.dtype,"),
    # ---- C06
    ("c06-fixed-ge", ["C06"], S + "samplers/smc/base.py",
     "            if beta >= 1.0 - 0.5 * beta_step:", "            if beta > 1.0:"),
    ("c06-no-clamp", ["C06"], S + "samplers/smc/base.py",
     "            beta = min(beta, 1.0)\n", "            pass\n"),
    ("c06-cap-off-by-one", ["C06"], S + "samplers/smc/base.py",
     "                if beta == 1.0 or (\n                    max_n_steps is not None and iterations >= max_n_steps", "                if beta == 1.0 or (\n                    max_n_steps is not None and iterations > max_n_steps"),
    ("c06-stall", ["C06"], S + "samplers/smc/base.py",
     "                beta_star = beta_max\n", "                beta_star = beta_min\n"),
    ("c06-minstep-ignored", ["C06"], S + "samplers/smc/base.py",
     "            beta = max(beta_star, beta_prev + min_step)", "            beta = beta_star"),
    # ---- C07
    ("c07-flip-ge", ["C07"], S + "samplers/smc/base.py",
     "                if eff >= target_eff:\n                    beta_min = beta_try\n                else:\n                    beta_max = beta_try",
     "                if eff >= target_eff:\n                    beta_max = beta_try\n                else:\n                    beta_min = beta_try"),
    ("c07-return-bracket-top", ["C07"], S + "samplers/smc/base.py",
     "            beta_star = beta_min\n            if beta_star <= beta_prev:", "            beta_star = beta_max\n            if beta_star <= beta_prev:"),
    ("c07-target-at-one", ["C07"], S + "samplers/smc/base.py",
     "            target_eff = self.current_target_efficiency(beta_prev)", "            target_eff = self.current_target_efficiency(1.0)"),
    ("c07-coarse-tolerance", ["C07"], S + "samplers/smc/base.py",
     "            while beta_max - beta_min > beta_tolerance:", "            while beta_max - beta_min > 50 * beta_tolerance:"),
    # ---- C08
    ("c08-ratio-after-resample", ["C08", "C18"], S + "samplers/smc/base.py",
     "                samples = samples.resample(beta, rng=self.rng)\n\n                samples = self.mutate(samples, beta)",
     "                samples = samples.resample(beta, rng=self.rng)\n                self.history.log_norm_ratio[-1] = samples.log_evidence_ratio(beta)\n\n                samples = self.mutate(samples, beta)"),
    ("c08-skip-last", ["C08"], S + "samplers/smc/base.py",
     "            asarray(self.history.log_norm_ratio, self.xp)\n        )",
     "            asarray(self.history.log_norm_ratio[:-1] or [0.0], self.xp)\n        )"),
    ("c08-var-no-N", ["C08"], S + "samples.py",
     "            var_w / (len(self) * (mean_w**2)) if mean_w != 0 else self.xp.nan",
     "            var_w / (mean_w**2) if mean_w != 0 else self.xp.nan"),
    ("c08-wrong-beta-pair", ["C08", "C18", "C07", "C09"], S + "samples.py",
     "        return (self.beta - beta) * self.log_q + (beta - self.beta) * (",
     "        return (0.0 - beta) * self.log_q + (beta - 0.0) * ("),
    ("c08-final-enlargement-adds-ratio", ["C08"], S + "samplers/smc/base.py",
     "            samples = self.mutate(final_samples, 1.0, n_steps=n_final_steps)\n",
     "            samples = self.mutate(final_samples, 1.0, n_steps=n_final_steps)\n            self.history.log_norm_ratio.append(samples.log_evidence_ratio(1.0))\n"),
    # ---- C09
    ("c09-logq-second-draw", ["C09"], S + "samples.py",
     "            log_q=self.log_q[idx],\n            beta=beta,",
     "            log_q=self.log_q[rng.choice(len(self.x), size=n_samples, replace=True, p=w)],\n            beta=beta,"),
    ("c09-ignore-n_samples", ["C09", "C06"], S + "samples.py",
     "        if n_samples is None:\n            n_samples = len(self.x)\n        log_w = self.log_weights(beta)",
     "        n_samples = len(self.x)\n        log_w = self.log_weights(beta)"),
    ("c09-absolute-weights", ["C09"], S + "samples.py",
     "        log_w = self.log_weights(beta)\n        # Normalise",
     "        log_w = beta * (self.log_likelihood + self.log_prior - self.log_q)\n        # Normalise"),
    ("c09-keeps-old-beta", ["C09"], S + "samples.py",
     "            log_q=self.log_q[idx],\n            beta=beta,", "            log_q=self.log_q[idx],\n            beta=self.beta,"),
    ("c09-prior-reversed", ["C09"], S + "samples.py",
     "            log_prior=self.log_prior[idx],\n            log_q=self.log_q[idx],",
     "            log_prior=self.log_prior[idx[::-1].copy()],\n            log_q=self.log_q[idx],"),
    # ---- C18
    ("c18-skip-append", ["C18"], S + "samplers/smc/base.py",
     "                if store_sample_history:\n                    self.history.sample_history.append(samples)\n                maybe_checkpoint()",
     "                if store_sample_history and iterations != 2:\n                    self.history.sample_history.append(samples)\n                maybe_checkpoint()"),
    ("c18-append-before-mutate", ["C18"], S + "samplers/smc/base.py",
     "                samples = self.mutate(samples, beta)\n                if store_sample_history:\n                    self.history.sample_history.append(samples)",
     "                if store_sample_history:\n                    self.history.sample_history.append(samples)\n                samples = self.mutate(samples, beta)"),
    ("c18-ess-at-prev", ["C18"], S + "samplers/smc/base.py",
     "                ess = effective_sample_size(samples.log_weights(beta))\n",
     "                ess = effective_sample_size(samples.log_weights(0.5 * (beta + samples.beta)))\n"),
    ("c18-resume-dup", ["C18"], S + "samplers/smc/base.py",
     "        if store_sample_history and not resumed:", "        if store_sample_history:"),
    # ---- C01
    ("c01-resample-uniform", ["C01", "C09"], S + "samples.py",
     "        w = to_numpy(w / self.xp.sum(w))\n", "        w = to_numpy(w / self.xp.sum(w))\n        w = np.ones_like(w) / len(w)\n"),
    ("c01-kernel-target-no-prior", ["C01", "C05"], S + "samples.py",
     "        log_p_T = self.log_likelihood + self.log_prior\n        return (1 - beta) * self.log_q + beta * log_p_T",
     "        log_p_T = self.log_likelihood\n        return (1 - beta) * self.log_q + beta * log_p_T"),
    ("c01-evidence-ratio-finite-only", ["C01", "C08"], S + "samples.py",
     "        log_w = self.unnormalized_log_weights(beta)\n        return logsumexp(log_w) - math.log(len(self.x))",
     "        log_w = self.unnormalized_log_weights(beta)\n        log_w = log_w[self.xp.isfinite(log_w)]\n        return logsumexp(log_w) - math.log(len(log_w))"),
    # ---- C03
    ("c03-zuko-logprob-jac-sign", ["C03"], S + "flows/torch/flows.py",
     "            log_prob = self._flow().log_prob(x_prime) + log_abs_det_jacobian", "            log_prob = self._flow().log_prob(x_prime) - log_abs_det_jacobian"),
    ("c03-zuko-sample-jac-sign", ["C03"], S + "flows/torch/flows.py",
     "        return asarray(x, xp), asarray(log_prob - log_abs_det_jacobian, xp)", "        return asarray(x, xp), asarray(log_prob + log_abs_det_jacobian, xp)"),
    ("c03-zuko-sample-no-inverse-rescale", ["C03"], S + "flows/torch/flows.py",
     "        x, log_abs_det_jacobian = self.inverse_rescale(x_prime)\n        return xp.asarray(x), xp.asarray(log_prob - log_abs_det_jacobian)",
     "        x, log_abs_det_jacobian = self.inverse_rescale(x_prime)\n        return xp.asarray(x_prime), xp.asarray(log_prob - log_abs_det_jacobian)"),
    ("c03-flowjax-logprob-drops-jac", ["C03"], S + "flows/jax/flows.py",
     "        return asarray(log_prob + log_abs_det_jacobian, xp)", "        return asarray(log_prob, xp)"),
    ("c03-flowjax-sample-jac-sign", ["C03"], S + "flows/jax/flows.py",
     "        return asarray(x, xp), asarray(log_prob - log_abs_det_jacobian, xp)", "        return asarray(x, xp), asarray(log_prob + log_abs_det_jacobian, xp)"),
    ("c03-drop-unit-scale-jac", ["C03", "C04"], S + "transforms.py",
     "        y, log_j_unit = self.to_unit_interval(x)\n        y = self.xp.clip(y, self.eps, 1.0 - self.eps)\n        y = erfinv(2 * y - 1) * math.sqrt(2)\n        log_abs_det_jacobian = 0.5 * (math.log(2 * math.pi) + y**2).sum(-1)\n        log_abs_det_jacobian = log_abs_det_jacobian + log_j_unit",
     "        y, log_j_unit = self.to_unit_interval(x)\n        y = self.xp.clip(y, self.eps, 1.0 - self.eps)\n        y = erfinv(2 * y - 1) * math.sqrt(2)\n        log_abs_det_jacobian = 0.5 * (math.log(2 * math.pi) + y**2).sum(-1)"),
    ("c03-zuko-weights-not-loaded", ["C03", "C13"], S + "flows/torch/flows.py",
     "        obj._flow.load_state_dict(weights)\n", "        obj._flow.load_state_dict(weights, strict=False) if len(weights) < 4 else None\n"),
    ("c03-affine-jac-uses-var", ["C03", "C04"], S + "transforms.py",
     "        self.log_abs_det_jacobian = -self.xp.log(self.xp.abs(self._std)).sum()\n        return self.forward(x)[0]",
     "        self.log_abs_det_jacobian = -self.xp.log(self.xp.abs(self._std) ** 2).sum()\n        return self.forward(x)[0]"),
    # ---- C14
    ("c14-flow-only-if-missing", ["C14"], S + "aspire.py",
     "                if self.flow is not None and not saved_flow:\n                    # The flow in the file must be the one this run samples\n                    # from: replace an existing one\n                    if \"flow\" in h5_file:\n                        del h5_file[\"flow\"]\n                    self.save_flow(h5_file)",
     "                if self.flow is not None and not saved_flow and \"flow\" not in h5_file:\n                    self.save_flow(h5_file)"),
    ("c14-fit-version-not-bumped-in-context", ["C14"], S + "aspire.py",
     "        self._flow_version = getattr(self, \"_flow_version\", 0) + 1\n", "        self._flow_version = getattr(self, \"_flow_version\", 0) + (0 if defaults else 1)\n"),
    ("c14-resume-defaults-no-config", ["C14"], S + "aspire.py",
     "            \"every\": 1,\n            \"save_config\": True,\n            \"save_flow\": False,", "            \"every\": 1,\n            \"save_config\": False,\n            \"save_flow\": False,"),
    ("c14-new-run-keeps-old-checkpoint", ["C14"], S + "aspire.py",
     "                if \"resume_from\" not in kwargs and \"checkpoint\" in h5_file:", "                if False:"),
    ("c14-fit-overwrite-keeps-checkpoint", ["C14"], S + "aspire.py",
     "                        if \"checkpoint\" in h5_file:\n                            # Weighted under the flow that is replaced\n                            del h5_file[\"checkpoint\"]\n", ""),
    ("c14-fit-keeps-resume-priming", ["C14"], S + "aspire.py",
     "            if hasattr(self, attr):\n                delattr(self, attr)\n        if checkpoint_path is None and defaults:", "            pass\n        if checkpoint_path is None and defaults:"),
    ("c14-fit-rewrites-config", ["C14"], S + "aspire.py",
     "                    and (overwrite or \"checkpoint\" not in h5_file)\n", ""),
    # ---- C12
    ("c12-no-resize", ["C12"], S + "utils.py",
     "    elif bdata.size != target[dsetname].shape[0]:\n        target[dsetname].resize((bdata.size,))\n", "    elif bdata.size > target[dsetname].shape[0]:\n        target[dsetname].resize((bdata.size,))\n"),
    ("c12-cadence-off-by-one", ["C12"], S + "samplers/smc/base.py",
     "                and iterations % checkpoint_every == 0", "                and iterations % checkpoint_every == 1 % checkpoint_every"),
    ("c12-no-final-checkpoint", ["C12"], S + "samplers/smc/base.py",
     "        maybe_checkpoint(force=True)\n", "        maybe_checkpoint(force=False)\n"),
    ("c12-config-after-sampling", ["C12"], S + "aspire.py",
     "                    del h5_file[\"checkpoint\"]\n                if checkpoint_save_config:\n                    if \"aspire_config\" in h5_file:",
     "                    del h5_file[\"checkpoint\"]\n                if checkpoint_save_config and False:\n                    if \"aspire_config\" in h5_file:"),
    ("c12-flow-after-sampling", ["C12"], S + "aspire.py",
     "                if self.flow is not None and not saved_flow:\n                    # The flow in the file must be the one this run samples",
     "                if self.flow is not None and not saved_flow and False:\n                    # The flow in the file must be the one this run samples"),
    ("c12-stale-sampler-type", ["C12", "C14"], S + "aspire.py",
     "        self._last_sampler_type = sampler\n        # Auto-checkpoint", "        # Auto-checkpoint"),
    ("c12-checkpoint-every-ignored-in-auto", ["C12"], S + "aspire.py",
     "            checkpoint_every = defaults[\"every\"]\n            checkpoint_save_config = defaults[\"save_config\"]\n        elif defaults",
     "            checkpoint_save_config = defaults[\"save_config\"]\n        elif defaults"),
    # ---- C11
    ("c11-rng-not-restored", ["C11"], S + "samplers/smc/base.py",
     "        if rng_state is not None and hasattr(self.rng, \"bit_generator\"):\n            self.rng.bit_generator.state = rng_state\n", ""),
    ("c11-iteration-key-typo", ["C11"], S + "samplers/smc/base.py",
     "        iteration = state.get(\"iteration\", 0)\n", "        iteration = state.get(\"iterations\", 0)\n"),
    ("c11-checkpoint-before-mutate", ["C11"], S + "samplers/smc/base.py",
     "                samples = self.mutate(samples, beta)\n                if store_sample_history:\n                    self.history.sample_history.append(samples)\n                maybe_checkpoint()",
     "                maybe_checkpoint()\n                samples = self.mutate(samples, beta)\n                if store_sample_history:\n                    self.history.sample_history.append(samples)"),
    ("c11-history-not-in-payload", ["C11"], S + "samplers/smc/base.py",
     "            \"history\": history_copy,", "            \"history\": SMCHistory(beta=list(self.history.beta)),"),
    ("c11-history-shallow-copy", ["C11", "C18", "C08"], S + "samplers/smc/base.py",
     "        history_copy = copy.deepcopy(self.history)", "        history_copy = copy.copy(self.history)"),
    ("c11-min-step-not-restored", ["C11"], S + "samplers/smc/base.py",
     "            \"min_step\": getattr(self, \"_min_step\", None),\n", ""),
    ("c11-resume-file-drops-beta", ["C11"], S + "samplers/smc/base.py",
     "        if beta is None:\n            beta = state.get(\"beta\", 0.0)", "        if beta is None or beta > 0.9:\n            beta = state.get(\"beta\", 0.0)"),
    ("c06-n_final-smaller-ignored", ["C06"], S + "samplers/smc/base.py",
     "        if n_final_samples is not None and len(samples.x) != n_final_samples:\n            logger.info",
     "        if n_final_samples is not None and len(samples.x) < n_final_samples:\n            logger.info"),
    # ---- C17
    ("c17-minipcn-mutate-order", ["C17"], S + "samplers/smc/minipcn.py",
     "        samples.log_prior = samples.array_to_namespace(self.log_prior(samples))\n        samples.log_likelihood = samples.array_to_namespace(\n            self.log_likelihood(samples)\n        )",
     "        samples.log_likelihood = samples.array_to_namespace(\n            self.log_likelihood(samples)\n        )\n        samples.log_prior = samples.array_to_namespace(self.log_prior(samples))"),
    ("c17-count-calls", ["C17"], S + "samplers/base.py",
     "        self.n_likelihood_evaluations += len(samples)", "        self.n_likelihood_evaluations += 1"),
    ("c17-emcee-mutate-bypasses-counter", ["C17"], S + "samplers/smc/emcee.py",
     "        samples.log_likelihood = samples.array_to_namespace(\n            self.log_likelihood(samples)\n        )",
     "        samples.log_likelihood = samples.array_to_namespace(\n            self._log_likelihood(samples)\n        )"),
    ("c17-mcmc-target-order", ["C17"], S + "samplers/mcmc.py",
     "        samples.log_prior = self.log_prior(samples)\n        samples.log_likelihood = self.log_likelihood(samples)\n        log_prob = (",
     "        samples.log_likelihood = self.log_likelihood(samples)\n        samples.log_prior = self.log_prior(samples)\n        log_prob = ("),
    ("c17-importance-order", ["C17"], S + "samplers/importance.py",
     "        samples.log_prior = samples.array_to_namespace(self.log_prior(samples))\n        samples.log_likelihood = samples.array_to_namespace(\n            self.log_likelihood(samples)\n        )",
     "        samples.log_likelihood = samples.array_to_namespace(\n            self.log_likelihood(samples)\n        )\n        samples.log_prior = samples.array_to_namespace(self.log_prior(samples))"),
    ("c17-initial-prior-from-untrimmed", ["C17", "C10"], S + "samplers/mcmc.py",
     "        if n_samples_drawn > n_samples:\n            samples = samples[:n_samples]\n",
     "        if n_samples_drawn > n_samples:\n            stale_prior = samples.log_prior[-n_samples:]\n            samples = samples[:n_samples]\n            samples.log_prior = stale_prior\n"),
    ("c17-emcee-evidence-prior-skipped-on-resample", ["C17"], S + "samplers/mcmc.py",
     "        samples_evidence.log_prior = self.log_prior(samples_evidence)\n        samples_evidence.log_likelihood = self.log_likelihood(samples_evidence)",
     "        samples_evidence.log_likelihood = self.log_likelihood(samples_evidence)\n        samples_evidence.log_prior = self.log_prior(samples_evidence)"),
    # ---- C10
    ("c10-mutate-stale-logq", ["C10"], S + "samplers/smc/minipcn.py",
     "        samples.log_q = samples.array_to_namespace(\n            self.prior_flow.log_prob(samples.x)\n        )\n        samples.log_prior = samples.array_to_namespace(self.log_prior(samples))",
     "        samples.log_q = particles.log_q\n        samples.log_prior = samples.array_to_namespace(self.log_prior(samples))"),
    ("c10-emcee-mutate-stale-prior", ["C10"], S + "samplers/smc/emcee.py",
     "        samples.log_prior = samples.array_to_namespace(self.log_prior(samples))\n        samples.log_likelihood",
     "        samples.log_prior = particles.log_prior\n        samples.log_likelihood"),
    ("c10-initial-too-many", ["C10"], S + "samplers/mcmc.py",
     "        if n_samples_drawn > n_samples:\n            samples = samples[:n_samples]\n", "        if n_samples_drawn > n_samples + 1:\n            samples = samples[:n_samples]\n"),
    ("c10-initial-keeps-infinite-prior", ["C10"], S + "samplers/mcmc.py",
     "            valid = self.xp.isfinite(new_samples.log_prior)\n", "            valid = ~self.xp.isnan(new_samples.log_prior)\n"),
    ("c10-enlargement-stale-likelihood", ["C10"], S + "samplers/smc/minipcn.py",
     "        samples.log_likelihood = samples.array_to_namespace(\n            self.log_likelihood(samples)\n        )",
     "        samples.log_likelihood = samples.array_to_namespace(\n            self.log_likelihood(samples)\n        ) if len(samples.x) == len(self.history.sample_history[0].x) else particles.log_likelihood"),
    # ---- C19
    ("c19-auto-no-finally", ["C19"], S + "aspire.py",
     "        try:\n            yield self\n        finally:\n            if prev is None:\n                if hasattr(self, \"_checkpoint_defaults\"):\n                    delattr(self, \"_checkpoint_defaults\")\n            else:\n                self._checkpoint_defaults = prev",
     "        yield self\n        if prev is None:\n            if hasattr(self, \"_checkpoint_defaults\"):\n                delattr(self, \"_checkpoint_defaults\")\n        else:\n            self._checkpoint_defaults = prev"),
    ("c19-auto-keeps-when-no-prev", ["C19"], S + "aspire.py",
     "            if prev is None:\n                if hasattr(self, \"_checkpoint_defaults\"):\n                    delattr(self, \"_checkpoint_defaults\")\n            else:",
     "            if prev is None:\n                pass\n            else:"),
    ("c19-auto-nested-restores-none", ["C19"], S + "aspire.py",
     "            else:\n                self._checkpoint_defaults = prev\n\n    def enable_pool",
     "            else:\n                self._checkpoint_defaults = dict(prev, saved_config=False)\n\n    def enable_pool"),
    ("c19-pool-close-always", ["C19"], S + "utils.py",
     "        if self.close_pool:\n            logger.debug(\"Closing pool\")", "        if self.close_pool or exc_type is not None:\n            logger.debug(\"Closing pool\")"),
    ("c19-pool-restore-only-on-success", ["C19"], S + "utils.py",
     "        self.aspire_instance.log_likelihood = self.original_log_likelihood\n        self.aspire_instance.log_prior = self.original_log_prior\n        if self.close_pool:",
     "        if exc_type is None:\n            self.aspire_instance.log_likelihood = self.original_log_likelihood\n        self.aspire_instance.log_prior = self.original_log_prior\n        if self.close_pool:"),
    ("c19-pool-prior-wrong-original", ["C19"], S + "utils.py",
     "        self.aspire_instance.log_prior = self.original_log_prior\n        if self.close_pool:",
     "        if self.parallelize_prior:\n            self.aspire_instance.log_prior = self.original_log_likelihood\n        if self.close_pool:"),
    ("c19-pool-join-missing", ["C19"], S + "utils.py",
     "            self.pool.close()\n            self.pool.join()", "            self.pool.close()"),
    # ---- C13
    ("c13-none-sentinel", ["C13"], S + "utils.py",
     "        if value == \"__none__\":\n            return None", "        if value == \"__none__\":\n            return \"None\""),
    ("c13-empty-dict-lost", ["C13"], S + "utils.py",
     "            if isinstance(value, dict) and value:\n                _save_flattened(g, full_key, value)",
     "            if isinstance(value, dict):\n                _save_flattened(g, full_key, value)"),
    ("c13-no-scalar-collapse", ["C13"], S + "utils.py",
     "    if isinstance(value, np.generic):\n        # Scalar datasets are read as NumPy scalars\n        return value.item()\n", ""),
    ("c13-samples-forget-beta", ["C13"], S + "samples.py",
     "        dictionary[\"dtype\"] = encode_dtype(self.xp, self.dtype)\n",
     "        dictionary[\"dtype\"] = encode_dtype(self.xp, self.dtype)\n        if dictionary.get(\"beta\") == 0.0:\n            dictionary[\"beta\"] = None\n"),
    ("c13-history-drops-last-population", ["C13"], S + "history.py",
     "        dictionary[\"__len_sample_history\"] = len(sample_history)", "        dictionary[\"__len_sample_history\"] = max(len(sample_history) - 1, 0) if len(sample_history) > 3 else len(sample_history)"),
    ("c13-affine-state-not-loaded", ["C13", "C03"], S + "transforms.py",
     "        if self.affine_transform:\n            affine_grp = h5_file[\"affine_transform\"]\n            self._affine_transform._load_state(affine_grp)",
     "        if self.affine_transform and self.bounded_parameters:\n            affine_grp = h5_file[\"affine_transform\"]\n            self._affine_transform._load_state(affine_grp)"),
    ("c13-zuko-kwargs-not-expanded", ["C13", "C03"], S + "flows/torch/flows.py",
     "        kwargs = config.pop(\"kwargs\", {})\n        config.update(kwargs)\n        obj = self(**config)", "        obj = self(**config)"),
    ("c13-config-drops-eps", ["C13"], S + "aspire.py",
     "            \"eps\": self.eps,\n            \"dtype\": _dtype_to_name(self.dtype),", "            \"dtype\": _dtype_to_name(self.dtype),"),
    ("c13-flow-kwargs-nested", ["C13"], S + "aspire.py",
     "        aspire = Aspire(**config_dict, **flow_kwargs)", "        aspire = Aspire(**config_dict, flow_kwargs=flow_kwargs)"),
    ("c13-flat-samples-lose-dtype", ["C13"], S + "samples.py",
     "        dictionary[\"dtype\"] = decode_dtype(\n            dictionary[\"xp\"], dictionary[\"dtype\"]\n        )",
     "        dictionary[\"dtype\"] = None if \"samples\" not in dictionary else decode_dtype(\n            dictionary[\"xp\"], dictionary[\"dtype\"]\n        )"),
    ("c13-eps-not-saved-probit", ["C13"], S + "transforms.py",
     "        return super().config_dict() | {\n            \"eps\": self.eps,\n        }\n\n\nclass LogitTransform",
     "        return super().config_dict()\n\n\nclass LogitTransform"),
    # ---- C15
    ("c15-to-namespace-drops-logq", ["C15"], S + "samples.py",
     "            log_q=self.log_q,\n            xp=xp,\n            device=self.device,\n            dtype=dtype,",
     "            xp=xp,\n            device=self.device,\n            dtype=dtype,"),
    ("c15-samples-to-namespace-default-width", ["C15"], S + "samples.py",
     "            if self.log_evidence_error is not None\n            else None,\n            xp=xp,\n            dtype=dtype,\n        )",
     "            if self.log_evidence_error is not None\n            else None,\n            xp=xp,\n        )"),
    ("c15-final-samples-dtype", ["C15"], S + "samples.py",
     "            xp=self.xp,\n            dtype=self.dtype,\n            parameters=self.parameters,\n            log_evidence=self.log_evidence,",
     "            xp=self.xp,\n            parameters=self.parameters,\n            log_evidence=self.log_evidence,"),
    ("c15-dlpack-ignores-dtype", ["C15"], S + "utils.py",
     "        if dtype is not None:\n            tensor = tensor.to(resolve_dtype(dtype, xp=xp))\n        return tensor",
     "        return tensor"),
    ("c15-from-samples-drops-dtype", ["C15"], S + "samples.py",
     "            xp=xp,\n            device=device,\n            dtype=dtype,\n            **kwargs,", "            xp=xp,\n            device=device,\n            **kwargs,"),
    ("c15-smc-to-namespace-beta", ["C15"], S + "samples.py",
     "        samples = super().to_namespace(xp, dtype=dtype)\n        samples.beta = self.beta\n", "        samples = super().to_namespace(xp, dtype=dtype)\n"),
    ("c15-importance-dtype", ["C15"], S + "samplers/importance.py",
     "            parameters=self.parameters,\n            dtype=self.dtype,\n        )", "            parameters=self.parameters,\n        )"),
    ("c15-zuko-grad", ["C15"], S + "flows/torch/flows.py",
     "        with torch.no_grad():\n            x_prime, log_abs_det_jacobian = self.rescale(x)\n            log_prob = self._flow().log_prob(x_prime) + log_abs_det_jacobian",
     "        if True:\n            x_prime, log_abs_det_jacobian = self.rescale(x)\n            log_prob = self._flow().log_prob(x_prime) + log_abs_det_jacobian"),
    ("c15-resolve-upper", ["C15"], S + "utils.py",
     "    return name.strip(\" '\\\"<>\").lower()", "    return name.strip(\" '\\\"<>\")"),
    # ---- C16
    ("c16-weights-not-sliced", ["C16"], S + "samples.py",
     "                sliced.weights = self.array_to_namespace(self.weights[idx])", "                sliced.weights = self.weights"),
    ("c16-prior-from-likelihood", ["C16"], S + "samples.py",
     "            log_prior=self.log_prior[idx]\n            if self.log_prior is not None",
     "            log_prior=self.log_likelihood[idx]\n            if self.log_prior is not None and self.log_likelihood is not None"),
    ("c16-concat-prior-reversed", ["C16"], S + "samples.py",
     "            log_prior=xp.concatenate([s.log_prior for s in samples], axis=0)",
     "            log_prior=xp.concatenate([s.log_prior for s in samples[::-1]], axis=0)"),
    ("c16-getitem-forgets-evidence-error", ["C16"], S + "samples.py",
     "        sliced = super().__getitem__(idx)\n        sliced.log_evidence = self.log_evidence\n        sliced.log_evidence_error = self.log_evidence_error\n\n        if self.log_w is not None:",
     "        sliced = super().__getitem__(idx)\n        sliced.log_evidence = self.log_evidence\n\n        if self.log_w is not None:"),
    ("c16-from-dict-sorts-parameters", ["C16", "C13"], S + "samples.py",
     "            parameters = dictionary.pop(\"parameters\")\n            if parameters is None:\n                parameters = sorted(samples.keys())",
     "            dictionary.pop(\"parameters\")\n            parameters = sorted(samples.keys())"),
    ("c16-pickle-drops-beta", ["C16"], S + "samples.py",
     "        state = self.__dict__.copy()\n        # replace xp (callable) with module name string",
     "        state = self.__dict__.copy()\n        if state.get(\"beta\") == 0.0:\n            state[\"beta\"] = None\n        # replace xp (callable) with module name string"),
    ("c16-smc-getitem-beta", ["C16"], S + "samples.py",
     "        sliced = super().__getitem__(idx)\n        sliced.beta = self.beta\n", "        sliced = super().__getitem__(idx)\n"),
    ("c16-from-dict-recomputes-evidence", ["C16"], S + "samples.py",
     "        if getattr(samples, \"log_w\", None) is not None:\n            for key in", "        if False:\n            for key in"),
    # ---- C05
    ("c05-smc-drop-jacobian", ["C05", "C01"], S + "samplers/smc/base.py",
     "        ).flatten() + samples.array_to_namespace(log_abs_det_jacobian)\n\n        log_prob = update_at_indices(",
     "        ).flatten()\n\n        log_prob = update_at_indices("),
    ("c05-smc-jacobian-sign", ["C05", "C01"], S + "samplers/smc/base.py",
     "        ).flatten() + samples.array_to_namespace(log_abs_det_jacobian)\n\n        log_prob = update_at_indices(",
     "        ).flatten() - samples.array_to_namespace(log_abs_det_jacobian)\n\n        log_prob = update_at_indices("),
    ("c05-beta-logq", ["C05", "C01"], S + "samples.py",
     "        return (1 - beta) * self.log_q + beta * log_p_T", "        return beta * self.log_q + beta * log_p_T"),
    ("c05-nan-propagates", ["C05"], S + "samplers/smc/base.py",
     "        log_prob = update_at_indices(\n            log_prob, self.xp.isnan(log_prob), -self.xp.inf\n        )\n        return log_prob",
     "        return log_prob"),
    ("c05-q-at-z", ["C05"], S + "samplers/smc/base.py",
     "        log_q = self.prior_flow.log_prob(samples.x)\n        samples.log_q = samples.array_to_namespace(log_q)\n        samples.log_prior = self.log_prior(samples)",
     "        log_q = self.prior_flow.log_prob(z)\n        samples.log_q = samples.array_to_namespace(log_q)\n        samples.log_prior = self.log_prior(samples)"),
    ("c05-mcmc-drop-jacobian", ["C05"], S + "samplers/mcmc.py",
     "            samples.log_likelihood\n            + samples.log_prior\n            + samples.array_to_namespace(log_abs_det_jacobian)\n        )",
     "            samples.log_likelihood\n            + samples.log_prior\n        )"),
    ("c05-blackjax-nan", ["C05"], S + "samplers/smc/blackjax.py",
     "        log_prob = self.xp.where(\n            self.xp.isnan(log_prob), -self.xp.inf, log_prob\n        )\n", ""),
    ("c05-blackjax-drop-jacobian", ["C05"], S + "samplers/smc/blackjax.py",
     "        ).flatten() + samples.array_to_namespace(log_abs_det_jacobian)\n\n        # Handle NaN values", "        ).flatten()\n\n        # Handle NaN values"),
    ("c05-mcmc-prior-ignored-when-inf", ["C05"], S + "samplers/mcmc.py",
     "        return to_numpy(log_prob).flatten()", "        return np.nan_to_num(to_numpy(log_prob).flatten(), neginf=-1e300)"),
    ("c05-copy-array-aliases-numpy", ["C05", "C04"], S + "utils.py",
     "            return xp.clone(xp.as_tensor(x))", "            return xp.as_tensor(x)"),
    # ---- C04
    ("c04-logit-jac-sign", ["C04"], S + "utils.py",
     "    log_j = (-xp.log(x) - xp.log1p(-x)).sum(-1)", "    log_j = (-xp.log(x) + xp.log1p(-x)).sum(-1)"),
    ("c04-sigmoid-jac", ["C04"], S + "utils.py",
     "    log_j = (xp.log(x) + xp.log1p(-x)).sum(-1)", "    log_j = (xp.log(x) - xp.log1p(-x)).sum(-1)"),
    ("c04-forget-scale-jac", ["C04"], S + "transforms.py",
     "        y, log_abs_det_jacobian = logit(y, eps=self.eps)\n        log_abs_det_jacobian = log_abs_det_jacobian + log_j_unit\n",
     "        y, log_abs_det_jacobian = logit(y, eps=self.eps)\n"),
    ("c04-composite-inverse-drops-bounded-jac", ["C04"], S + "transforms.py",
     "            x = update_at_indices(x, (slice(None), self.bounded_mask), y)\n            log_abs_det_jacobian += log_j_bounded\n\n        if self.periodic_parameters:",
     "            x = update_at_indices(x, (slice(None), self.bounded_mask), y)\n\n        if self.periodic_parameters:"),
    ("c04-periodic-no-offset", ["C04"], S + "transforms.py",
     "        y = self.lower + (x - self.lower) % self._width", "        y = self.lower + x % self._width"),
    ("c04-affine-jac-mean", ["C04"], S + "transforms.py",
     "        self._std = x.std(0)\n        self.log_abs_det_jacobian = -self.xp.log(self.xp.abs(self._std)).sum()",
     "        self._std = x.std(0)\n        self.log_abs_det_jacobian = -self.xp.log(self.xp.abs(self._std)).mean()"),
    ("c04-probit-jac-sign", ["C04"], S + "transforms.py",
     "        log_abs_det_jacobian = 0.5 * (math.log(2 * math.pi) + y**2).sum(-1)",
     "        log_abs_det_jacobian = 0.5 * (math.log(2 * math.pi) - y**2).sum(-1)"),
    ("c04-clip-asymmetric", ["C04"], S + "utils.py",
     "        x = xp.clip(x, eps, 1 - eps)", "        x = xp.clip(x, eps, 1 - 10 * eps)"),
    ("c04-fit-skips-wrap", ["C04"], S + "transforms.py",
     "                self._periodic_transform.fit(x[:, self.periodic_mask]),", "                x[:, self.periodic_mask],"),
    ("c04-composite-jac-float32", ["C04"], S + "transforms.py",
     "        log_abs_det_jacobian = self.xp.zeros(\n            len(x), device=self.device, dtype=x.dtype\n        )\n        if self.periodic_parameters:",
     "        log_abs_det_jacobian = self.xp.zeros(len(x), device=self.device)\n        if self.periodic_parameters:"),
]


def make_patch(m, wt):
    name, props, rel, old, new = m
    p = Path(wt) / rel
    s = p.read_text()
    if s.count(old) != 1:
        return None, f"anchor occurs {s.count(old)} times"
    p.write_text(s.replace(old, new))
    diff = subprocess.run(["git", "-C", wt, "diff"], capture_output=True, text=True).stdout
    subprocess.run(["git", "-C", wt, "checkout", "--", "."], capture_output=True)
    return diff, None


def run_one(m, prop, extra):
    name = m[0]
    wt = tempfile.mkdtemp(prefix="aspire-mutgen.")
    subprocess.run(["git", "-C", "/repo", "worktree", "add", "--detach", "-q", wt, "HEAD"], capture_output=True)
    try:
        diff, err = make_patch(m, wt)
    finally:
        subprocess.run(["git", "-C", "/repo", "worktree", "remove", "--force", wt], capture_output=True)
    if err:
        return f"{name:36s} {prop}: ANCHOR-ERROR {err}"
    fd, pf = tempfile.mkstemp(suffix=f".{name}.diff")
    os.write(fd, diff.encode())
    os.close(fd)
    out = subprocess.run([str(ROOT / "tools/run_mutant.sh"), pf, prop] + extra, capture_output=True, text=True).stdout
    os.unlink(pf)
    last = out.strip().splitlines()[-1] if out.strip() else "?"
    first = [l for l in out.splitlines() if l.startswith("violation")][:1]
    return f"{name:36s} {prop}: {last.split(' ')[0]:9s} {first[0][:150] if first else ''}"


def main():
    if len(sys.argv) < 2 or sys.argv[1] == "list":
        for m in MUTANTS:
            print(m[0], m[1])
        return
    args = sys.argv[2:]
    jobs = 2
    extra = []
    props = []
    i = 0
    while i < len(args):
        if args[i] == "--jobs":
            jobs = int(args[i + 1]); i += 2
        elif args[i] == "--args":
            extra = args[i + 1].split(); i += 2
        else:
            props.append(args[i].upper()); i += 1
    work = []
    for m in MUTANTS:
        for p in m[1]:
            if not props or p in props or m[0] in [x.lower() for x in props]:
                work.append((m, p))
    with ThreadPoolExecutor(jobs) as ex:
        for line in ex.map(lambda w: run_one(w[0], w[1], extra), work):
            print(line, flush=True)


if __name__ == "__main__":
    main()
