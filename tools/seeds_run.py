#!/usr/bin/env python3
"""Re-run every kept seed (seeded/<name>/patch.diff) against the checks recorded as detecting it (meta.json check_result),
in scratch worktrees of /repo HEAD - a regression run for the checks after they were changed.

usage: tools/seeds_run.py [--jobs k] [--update] [name ...]   prints one line per (seed, check): DETECTED / MISSED / ERROR
       --update: run every check listed in the seed's checks_run and rewrite check_result in its meta.json
"""
import json
import subprocess
import sys
from concurrent.futures import ThreadPoolExecutor
from pathlib import Path

ROOT = Path(__file__).resolve().parent.parent


def main():
    args = sys.argv[1:]
    jobs = 3
    if "--jobs" in args:
        i = args.index("--jobs")
        jobs = int(args[i + 1])
        del args[i:i + 2]
    update = "--update" in args
    if update:
        args.remove("--update")
    work = []
    for d in sorted((ROOT / "seeded").iterdir()):
        if args and d.name not in args:
            continue
        m = d / "meta.json"
        if not m.exists():
            continue
        j = json.loads(m.read_text())
        res = j.get("check_result", "")
        det = [t.split("=")[0] for t in res.split() if t.endswith("=DETECTED")]
        if res.strip() == "DETECTED":  # first seeds: verdict of the seed's own property check only
            det = [j.get("property") or d.name.split("-")[0]]
        if update:
            det = list(j.get("checks_run") or det)
        if not det:
            print(f"{d.name:8s} -      : kept as not flagged ({(j.get('note') or '')[:80]})", flush=True)
            continue
        for c in det:
            work.append((d.name, c, d / "patch.diff"))

    def one(w):
        name, c, patch = w
        r = subprocess.run([str(ROOT / "tools" / "run_mutant.sh"), str(patch), c], capture_output=True, text=True)
        last = (r.stdout.strip().splitlines() or ["ERROR no output"])[-1]
        verdict = last.split()[0]
        return f"{name:8s} {c}: {verdict}"

    results = {}
    with ThreadPoolExecutor(jobs) as ex:
        for w, line in zip(work, ex.map(one, work)):
            print(line, flush=True)
            results.setdefault(w[0], []).append((w[1], line.split(": ")[-1]))
    if update:
        for name, rs in results.items():
            m = ROOT / "seeded" / name / "meta.json"
            j = json.loads(m.read_text())
            j["check_result"] = " ".join(f"{c}={v}" for c, v in rs) + " "
            m.write_text(json.dumps(j, indent=1))


if __name__ == "__main__":
    main()
