#!/usr/bin/env python3
"""Regenerate the generated tables of DESIGN.md (repaired defects from known_findings.json, seeds from seeded/*/meta.json)."""
import json
import re
import subprocess
from pathlib import Path

ROOT = Path(__file__).resolve().parent.parent
s = (ROOT / "DESIGN.md").read_text()
k = json.loads((ROOT / "known_findings.json").read_text())
rows = ["| property | commit | what failed |", "|---|---|---|"]
for e in k["findings"]:
    if e["status"] == "fixed":
        rows.append(f"| {e['property']} | `{e['commit']}` | {e['what']} |")
s = re.sub(r"<!-- FIXED_TABLE_BEGIN -->.*?<!-- FIXED_TABLE_END -->", "<!-- FIXED_TABLE_BEGIN -->\n" + "\n".join(rows) + "\n<!-- FIXED_TABLE_END -->", s, flags=re.S)
table = subprocess.run(["/venv/bin/python", str(ROOT / "tools" / "seed_table.py")], capture_output=True, text=True).stdout.strip()
s = re.sub(r"<!-- SEED_TABLE_BEGIN -->.*?<!-- SEED_TABLE_END -->", "<!-- SEED_TABLE_BEGIN -->\n" + table + "\n<!-- SEED_TABLE_END -->", s, flags=re.S)
n_fix = sum(1 for e in k["findings"] if e["status"] == "fixed")
s = re.sub(r"\(\d+ `fix:` commits in `/repo`, \d+ recorded findings\)", f"({n_fix} `fix:` commits in `/repo`, {sum(1 for e in k['findings'] if e['status']=='known')} recorded findings)", s)
(ROOT / "DESIGN.md").write_text(s)
print("tables updated:", n_fix, "fixed;", table.count("\n") - 1, "seeds")
