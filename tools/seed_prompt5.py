#!/usr/bin/env python3
"""Fifth-round prompt: seeds g and h, different in kind from rounds 1-2. usage: seed_prompt3.py C06 (prints the prompt; creates /tmp/seed5-<ID>)"""
import json, subprocess, sys
from pathlib import Path
pid = sys.argv[1]
wt = f"/tmp/seed5-{pid}"
subprocess.run(["git", "-C", "/repo", "worktree", "add", "--detach", "-q", wt, "HEAD"], capture_output=True)
first = subprocess.run(["/venv/bin/python", "/verif/tools/seed_prompt.py", pid], capture_output=True, text=True).stdout
if not Path(f"/tmp/seed-{pid}/_seed").exists():
    subprocess.run(["git", "-C", "/repo", "worktree", "remove", "--force", f"/tmp/seed-{pid}"], capture_output=True)
text = (first.replace(f"/tmp/seed-{pid}", wt).replace('(seed "a" and seed "b")', '(seed "i" and seed "j")')
        .replace("_seed/a/", "_seed/i/").replace("_seed/b/", "_seed/j/").replace("_seed/a ", "_seed/i ").replace("{a,b}", "{i,j}"))
prev = []
for s in ("a", "b", "c", "d", "e", "f", "g", "h"):
    m = Path(f"/verif/seeded/{pid}-{s}/meta.json")
    if m.exists():
        j = json.loads(m.read_text())
        prev.append(f"  - already done (do NOT repeat this idea or a close variant): {j.get('summary', '')[:260]}")
text += ("\n\nThis is a fifth round. Earlier seeds for this property were:\n" + "\n".join(prev) +
         "\nYour two seeds must be of a different kind and in different code paths than all of those. Re-read the property statement and its quantifier clause by clause "
         "and pick clauses / configurations the earlier seeds did not touch: other call sites, other samplers / classes / back-ends, other option combinations, other "
         "namespaces / dtypes, interactions between two features, state that survives between calls on one object, error / exception paths, boundary values, "
         "numerical edge cases (overflow, underflow, -inf, ties), ordering of names or operations.\n"
         "Additional notes: the machine is heavily loaded; do NOT run the full test suite or tests/integration_tests as a whole - restrict yourself to the unit-test files "
         "relevant to the code you touch (e.g. tests/test_samples.py tests/test_utils.py tests/test_history.py tests/test_transforms.py tests/test_flows) with "
         "`--no-cov -p no:cacheprovider`, comparing the per-test pass/fail list against the clean tree. Use `/venv/bin/python` with environment "
         f"`PYTHONPATH={wt}/src TORCHDYNAMO_DISABLE=1 SCIPY_ARRAY_API=1`. The kernel packages minipcn / orng / emcee / blackjax are not installed: a demo that needs an "
         "SMC / MCMC run must ship small stand-in modules for them inside the demo itself (written to a temporary directory that the demo removes again).\n")
print(text)
