#!/usr/bin/env python3
"""Second-round prompt: seeds c and d, different in kind from the first round. usage: seed_prompt2.py C06"""
import json, subprocess, sys
from pathlib import Path
pid = sys.argv[1]
wt = f"/tmp/seed2-{pid}"
subprocess.run(["git", "-C", "/repo", "worktree", "add", "--detach", "-q", wt, "HEAD"], capture_output=True)
first = subprocess.run(["/venv/bin/python", "/verif/tools/seed_prompt.py", pid], capture_output=True, text=True).stdout
subprocess.run(["git", "-C", "/repo", "worktree", "remove", "--force", f"/tmp/seed-{pid}"], capture_output=True) if not Path(f"/tmp/seed-{pid}/_seed").exists() else None
text = first.replace(f"/tmp/seed-{pid}", wt).replace('(seed "a" and seed "b")', '(seed "c" and seed "d")').replace("_seed/a/", "_seed/c/").replace("_seed/b/", "_seed/d/").replace("_seed/a ", "_seed/c ").replace("{a,b}", "{c,d}")
prev = []
for s in ("a", "b"):
    m = Path(f"/verif/seeded/{pid}-{s}/meta.json")
    if m.exists():
        j = json.loads(m.read_text())
        prev.append(f"  - already done (do NOT repeat this idea or a close variant): {j.get('summary', '')[:400]}")
text += "\n\nThis is a second round. Earlier seeds for this property were:\n" + "\n".join(prev) + \
    "\nYour two seeds must be of a different kind and in different code paths than those: look for other mechanisms the property relies on " \
    "(other call sites, other samplers/classes, other option combinations, other namespaces/dtypes, interactions between two features, state that survives between calls, " \
    "error/exception paths, boundary values).\n"
print(text)
