#!/usr/bin/env python3
"""Print the sub-agent prompt for one property and create its scratch worktree. usage: seed_prompt.py C06"""
import json, subprocess, sys
pid = sys.argv[1]
props = {json.loads(l)["id"]: json.loads(l) for l in open("/verif/properties.jsonl")}
p = props[pid]
wt = f"/tmp/seed-{pid}"
subprocess.run(["git", "-C", "/repo", "worktree", "add", "--detach", "-q", wt, "HEAD"], capture_output=True)
print(f"""You are helping to evaluate a verification framework by writing realistic *defects* (seeded bugs) for a Python library. Work ONLY inside the git worktree {wt} (a checkout of the library mj-will/aspire: a Bayesian inference library with normalizing-flow proposals, adaptive-tempering SMC, importance sampling, parameter transforms, HDF5 checkpoint/resume). Do not read or write anything under /verif or /repo. Do not commit.

The property under study ({pid}: {p['title']}):
  Statement: {p['statement']}
  Quantified over: {p['quantifier']['text']}
  Files it is anchored in: {', '.join(p['anchors']['files'])}

Task: produce TWO independent changes (seed "a" and seed "b") to the library source under {wt}/src/aspire, each of which
  1. breaks the property above (for some input / configuration / history / crash point),
  2. still imports fine and keeps the existing test-suite results unchanged (every test that passes before your change still passes), and
  3. needs something SPECIFIC to manifest - a particular multi-step sequence of operations, an unusual but valid input, a fault or interruption at a particular point, a particular combination of options, or two cooperating sites that each look fine alone. NOT something ordinary use would expose at once (e.g. do not just flip a sign that makes every run wrong). Make them look like plausible programmer mistakes (off-by-one, wrong variable, stale cache, missing branch, forgotten field, wrong order...). The two seeds must be different in kind and touch different code if possible.

For each seed write, under {wt}/_seed/a/ and {wt}/_seed/b/:
  - patch.diff : `git -C {wt} diff -- src` output for that seed ALONE (apply one seed, save its diff, then `git -C {wt} checkout -- src` before doing the other),
  - demo.py    : a small standalone program that exits 0 on the unmodified library and exits non-zero (assertion failure) when the patch is applied, demonstrating the property violation through the library's public API,
  - meta.json  : {{"property": "{pid}", "summary": "...one sentence...", "needs": "...what is needed for it to manifest...", "files": [...]}}.

Environment facts you need:
  - Python: /venv/bin/python. The library is installed in editable mode from /repo/src, so to run YOUR modified copy you MUST set PYTHONPATH={wt}/src (e.g. `cd {wt} && PYTHONPATH={wt}/src /venv/bin/python _seed/a/demo.py`). Also set TORCHDYNAMO_DISABLE=1 (otherwise the torch flow compiles for ~45 s) and SCIPY_ARRAY_API=1.
  - Tests: `cd {wt} && PYTHONPATH={wt}/src TORCHDYNAMO_DISABLE=1 /venv/bin/python -m pytest -q -p no:cacheprovider -x tests/<file>` . The full suite takes several minutes; 279 tests pass and 205 fail at baseline because the optional kernel packages `minipcn`, `orng`, `emcee`, `blackjax` and `pandas`/`corner` are NOT installed and cannot be installed (no network). Run the test files relevant to what you touched (tests/test_samples.py, tests/test_utils.py, tests/test_transforms.py, tests/test_history.py, tests/test_flows/...) before and after, and make sure the set of passing tests is unchanged.
  - Because `minipcn`, `orng` and `emcee` are missing, SMC/MCMC samplers cannot run out of the box. If your demo needs to run an SMC/MCMC sampler, ship a tiny stand-in module inside the demo itself (e.g. create a temporary directory with a minimal `minipcn/__init__.py` providing `Sampler(log_prob_fn, step_fn, rng, dims, target_acceptance_rate, xp=None).sample(z, n_steps) -> (chain, history)` with `history.acceptance_rate`, and `orng/__init__.py` providing `ArrayRNG(backend=..., seed=None)` with normal/uniform/choice, and put it on sys.path). A random-walk Metropolis or even an identity kernel is enough. jax needs `jax.config.update("jax_enable_x64", True)` for float64.
  - User callables have the signature log_likelihood(samples) / log_prior(samples) where samples.x is an (N, dims) array; a proposal can be a trained flow (`Aspire(...).fit(Samples(x))`, use n_epochs<=5 and tiny data to keep it fast) or any subclass of aspire.flows.base.Flow passed as Aspire(flow=...).
  - Keep each demo under ~60 s.

Before finishing, VERIFY for each seed, in this order: (i) on the clean tree demo.py exits 0; (ii) with the patch applied demo.py exits non-zero; (iii) the relevant existing tests still pass with the patch applied; then restore the tree (`git -C {wt} checkout -- src`) leaving only the _seed/ directory. Report briefly what each seed does and the exact commands you ran.""")
