#!/usr/bin/env python3
"""Regenerate /verif/MANIFEST.json from tools/manifest_src.json + the set of implemented property modules."""
import json
import subprocess
import sys
from pathlib import Path

ROOT = Path(__file__).resolve().parent.parent
src = json.loads((ROOT / "tools" / "manifest_src.json").read_text())
props = [json.loads(l) for l in (ROOT / "properties.jsonl").read_text().splitlines() if l.strip()]

checks = []
na = []
for p in props:
    pid = p["id"]
    c = src["checks"].get(pid)
    mod = ROOT / "pbt" / "props" / f"{pid.lower()}.py"
    if c and c.get("enabled", True) and mod.exists():
        checks.append(
            {
                "property_id": pid,
                "quick_cmd": f"./check {pid} --tier quick",
                "thorough_cmd": f"./check {pid} --tier thorough",
                "evidence_file": f"evidence/{pid}.json",
                "replay_cmd_template": f"./check {pid} --replay {{path}}",
                "engine": "pbt",
                "level_claimed": {
                    "category": c["category"],
                    "text": c["text"],
                    "design_ref": c.get("design_ref", f"DESIGN.md section 2, {pid}"),
                },
                "level_note": c["note"],
                "technique": c["technique"],
            }
        )
    else:
        na.append({"property_id": pid, "reason": (c or {}).get("na_reason", src["default_na_reason"])})

manifest = {
    "version": 1,
    "setup_cmd": "./setup.sh",
    "hooks": src["hooks"],
    "engines": [
        {
            "name": "pbt",
            "path": "pbt/",
            "serves_properties": [c["property_id"] for c in checks],
            "kind_free_text": "Hypothesis 6.168 property-based / stateful testing with explicit reference oracles, "
            "sharded over processes; exhaustive enumeration of finite grids and fault positions where stated",
        }
    ],
    "checks": checks,
    "notes": src["notes"],
    "not_applicable": na,
}
(ROOT / "MANIFEST.json").write_text(json.dumps(manifest, indent=1) + "\n")
try:
    sys.path.insert(0, str(ROOT / ".deps"))
    import jsonschema

    jsonschema.validate(manifest, json.loads(Path("/root/.vp/MANIFEST.schema.json").read_text()))
    print(f"MANIFEST.json valid: {len(checks)} checks, {len(na)} not_applicable")
except ImportError:
    print("jsonschema missing; wrote MANIFEST.json unvalidated")
