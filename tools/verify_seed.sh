#!/usr/bin/env bash
# usage: tools/verify_seed.sh <seed dir with patch.diff demo.py meta.json> <ID> <name> [--no-tests]
# Confirms in a scratch worktree of /repo HEAD: demo passes clean, fails patched, pinned tests still pass patched;
# then runs ./check <ID> (quick) against the patched tree. Copies the seed to /verif/seeded/<name>/ with the outcome.
set -u
SD="$(realpath "$1")"; ID="$2"; NAME="$3"; NOTESTS="${4:-}"
HERE="$(cd "$(dirname "${BASH_SOURCE[0]}")/.." && pwd)"
WT="$(mktemp -d /tmp/aspire-seedchk.XXXXXX)"
git -C /repo worktree add --detach -q "$WT" HEAD >/dev/null 2>&1 || { echo "ERROR worktree"; exit 2; }
cleanup() { git -C /repo worktree remove --force "$WT" >/dev/null 2>&1; rm -rf "$WT"; }
trap cleanup EXIT
export TORCHDYNAMO_DISABLE=1 SCIPY_ARRAY_API=1 TQDM_DISABLE=1
run_demo() { (cd "$WT" && PYTHONPATH="$WT/src" timeout 600 /venv/bin/python "$SD/demo.py" >/tmp/demo.$$.out 2>&1); echo $?; }
clean_rc=$(run_demo)
if ! git -C "$WT" apply "$SD/patch.diff" 2>/tmp/apply.$$.err && ! git -C "$WT" apply --3way "$SD/patch.diff" 2>>/tmp/apply.$$.err && ! (cd "$WT" && patch -p1 -F3 -s < "$SD/patch.diff" >>/tmp/apply.$$.err 2>&1); then echo "RESULT $NAME: PATCH-DOES-NOT-APPLY $(head -2 /tmp/apply.$$.err)"; exit 0; fi
patched_rc=$(run_demo)
tests="skipped"
if [ -z "$NOTESTS" ]; then
  tests=$(cd "$WT" && ASPIRE_REPO="$WT" PYTHONPATH="$WT/src" "$HERE/tools/baseline.py" -n 4 | head -1)
fi
SCR="$(mktemp -d /tmp/verif-scr.XXXXXX)"
rsync -a --exclude .git --exclude evidence --exclude replays --exclude seeded "$HERE/" "$SCR/"
verdict=""; viol=""
for CID in ${ID//,/ }; do
  ASPIRE_REPO="$WT" "$SCR/check" "$CID" >/tmp/chk.$$.out 2>&1; rc=$?
  case $rc in
    1) v=DETECTED; [ -z "$viol" ] && viol="[$CID] $(grep -m1 "^violation" /tmp/chk.$$.out | cut -c1-300)";;
    0) v=MISSED;;
    *) v="ERROR(rc=$rc)";;
  esac
  verdict="$verdict$CID=$v "
done
rm -rf "$SCR"
echo "RESULT $NAME: demo_clean_rc=$clean_rc demo_patched_rc=$patched_rc tests=[$tests] check=$verdict $viol"
mkdir -p "$HERE/seeded/$NAME"
cp "$SD/patch.diff" "$SD/demo.py" "$HERE/seeded/$NAME/" 2>/dev/null
/venv/bin/python - "$SD/meta.json" "$HERE/seeded/$NAME/meta.json" "$ID" "$clean_rc" "$patched_rc" "$tests" "$verdict" "$viol" <<'PY'
import json, sys
src, dst, pid, c, p, tests, verdict, viol = sys.argv[1:9]
try: m = json.load(open(src))
except Exception: m = {}
m.update({"property": pid.split(",")[0], "checks_run": pid.split(","), "confirmed": {"demo_exit_clean": int(c), "demo_exit_patched": int(p), "pinned_tests_with_patch": tests,
          "how": "tools/verify_seed.sh: scratch git worktree of /repo HEAD, demo run with PYTHONPATH=<worktree>/src before and after `git apply patch.diff`, tools/baseline.py (pinned pytest command vs BASELINE.json stable_pass) on the patched worktree, then ./check <ID> --tier quick with ASPIRE_REPO=<worktree>"},
          "check_result": verdict, "first_violation": viol})
json.dump(m, open(dst, "w"), indent=1)
PY
rm -f /tmp/demo.$$.out /tmp/chk.$$.out /tmp/apply.$$.err
