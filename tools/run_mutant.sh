#!/usr/bin/env bash
# usage: tools/run_mutant.sh <patch.diff> <ID> [extra ./check args...]
# Applies the patch to a scratch git worktree of /repo (HEAD), runs ./check <ID> against it, removes the worktree.
# Prints "DETECTED" (check exit 1), "MISSED" (exit 0) or "ERROR" (exit 2 / patch failure).
set -u
PATCH="$(realpath "$1")"; ID="$2"; shift 2
HERE="$(cd "$(dirname "${BASH_SOURCE[0]}")/.." && pwd)"
WT="$(mktemp -d /tmp/aspire-mut.XXXXXX)"
git -C /repo worktree add --detach -q "$WT" HEAD >/dev/null 2>&1 || { echo "ERROR worktree"; exit 2; }
cleanup() { git -C /repo worktree remove --force "$WT" >/dev/null 2>&1; rm -rf "$WT"; }
trap cleanup EXIT
if ! git -C "$WT" apply "$PATCH" 2>/tmp/apply.err && ! git -C "$WT" apply --3way "$PATCH" 2>>/tmp/apply.err && ! (cd "$WT" && patch -p1 -F3 -s < "$PATCH" >>/tmp/apply.err 2>&1); then echo "ERROR patch does not apply: $(cat /tmp/apply.err | head -3)"; exit 2; fi
OUT="$(mktemp /tmp/mut-out.XXXXXX)"
# evidence/replays of a mutant run must not overwrite the real ones: run from a scratch copy of /verif's code
SCR="$(mktemp -d /tmp/verif-scr.XXXXXX)"
rsync -a --exclude .git --exclude evidence --exclude replays "$HERE/" "$SCR/"
ASPIRE_REPO="$WT" "$SCR/check" "$ID" "$@" >"$OUT" 2>&1
rc=$?
grep -E "^(VIOLATION|violation|KNOWN|HARNESS)" "$OUT" | head -4
tail -2 "$OUT" | head -1
rm -rf "$SCR" "$OUT"
case $rc in 1) echo "DETECTED ($ID <- $(basename "$PATCH"))";; 0) echo "MISSED ($ID <- $(basename "$PATCH"))";; *) echo "ERROR rc=$rc ($ID <- $(basename "$PATCH"))";; esac
exit 0
