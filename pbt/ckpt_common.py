"""Crash-point enumeration shared by C11 (resume == uninterrupted run) and C12 (file is loadable and current).

Per generated configuration: a reference run R0 with file checkpointing, during which the harness logs every
checkpoint write (by wrapping aspire's dump_state inside this process only) and, for every likelihood / prior
call, how many loop iterations had completed.  Then the run is repeated with an exception injected at call k,
for EVERY k, and the file / the resumed run are checked.
"""
from __future__ import annotations

import os
import pickle
import shutil
import tempfile

import numpy as np
from hypothesis import strategies as st

from . import env
from . import runs_common as rc


@st.composite
def config_case(draw, for_c12=False):
    d = draw(st.integers(1, 2))
    pre = draw(st.sampled_from(["none", "default", "default+logit", "default+probit+affine", "periodic"]))
    min_n = 10 if "affine" in pre else 6
    case = {
        "sampler": "smc", "ns": draw(st.sampled_from(["numpy", "numpy", "torch"])),
        "width": draw(st.sampled_from([None, "float64", "float64", "float32"])), "d": d, "pre": pre,
        "leak": draw(st.sampled_from([0.0, 0.3, 0.6])),
        "n": draw(st.integers(min_n, 28)),
        "seed": draw(st.integers(0, 2**31 - 1)),
        "kernel_steps": draw(st.integers(1, 2)),
        "adaptive": draw(st.booleans()),
        "n_final": draw(st.sampled_from([None, None, "smaller", "larger"])),
        "ckpt_every": draw(st.integers(1, 4 if not for_c12 else 5)),
        "resume_pick": None,
        "sharp": draw(st.sampled_from([1.0, 0.3, 0.1])),
    }
    if case["adaptive"]:
        case["target"] = draw(st.sampled_from([0.5, 0.8, 0.95, 0.3]))
        opt = draw(st.sampled_from(["none", "none", "min_step", "max_n_steps", "both"]))
        if opt == "min_step":
            case["min_step"] = draw(st.sampled_from([0.05, 0.2, 0.5]))
        elif opt == "max_n_steps":
            case["max_n_steps"] = draw(st.integers(2, 8))
        elif opt == "both":  # the cap can bind: the run may stop before beta = 1
            case["min_step"] = draw(st.sampled_from([0.01, 0.05]))
            case["max_n_steps"] = draw(st.integers(2, 5))
    else:
        case["n_steps"] = draw(st.sampled_from([1, 2, 2, 3, 4, 5, 7]))
        if draw(st.integers(0, 3)) == 0:
            case["max_n_steps"] = draw(st.integers(1, 4))
    if for_c12:
        case["path_mode"] = draw(st.sampled_from(["explicit", "explicit", "auto"]))
        case["preexisting"] = draw(st.sampled_from(["fresh", "fresh", "larger", "smaller"]))
        case["fault_kind"] = draw(st.sampled_from(["likelihood", "likelihood", "prior"]))
        case["fit_in_context"] = draw(st.booleans())
    return case


class WriteLog:
    """Wraps aspire's dump_state (as imported by aspire.samplers.base) in this process."""

    def __init__(self):
        self.writes = []

    def __enter__(self):
        import aspire.samplers.base as sb
        import aspire.utils as ut

        log = self
        self._patched = []
        orig = ut.dump_state

        def logged(state, fp, path=None, dsetname="state", protocol=pickle.HIGHEST_PROTOCOL):
            blob = pickle.dumps(state, protocol=protocol)
            res = orig(state, fp, path=path, dsetname=dsetname, protocol=protocol)
            log.writes.append({"iteration": state.get("iteration"), "blob": blob, "path": path, "dset": dsetname})
            return res

        # the function object is reachable through the defining module and through every module that imported it by name
        for mod in (ut, sb):
            if getattr(mod, "dump_state", None) is orig:
                self._patched.append((mod, orig))
                mod.dump_state = logged
        return self

    def __exit__(self, *a):
        for mod, orig in self._patched:
            mod.dump_state = orig


class CkptProblem(rc.Problem):
    """Problem whose callables also record how many loop iterations had completed at each call."""

    def __init__(self, case, fault=None):
        fault_at = None
        if fault is not None:
            fault_at = fault[1] if fault[0] == "likelihood" else ("prior", fault[1])
        super().__init__(case, fault_at=fault_at)
        self.completed_at_call = []
        self.completed_at_prior = []
        me = self
        inner_l = self.aspire.log_likelihood
        inner_p = self.aspire.log_prior

        def completed():
            s = me.aspire.sampler
            h = getattr(s, "history", None) if s is not None else None
            if h is None:
                return 0
            return max(0, len(h.sample_history) - 1)

        def log_likelihood(samples):
            me.completed_at_call.append(completed())
            return inner_l(samples)

        def log_prior(samples):
            me.completed_at_prior.append(completed())
            return inner_p(samples)

        self.aspire.log_likelihood = log_likelihood
        self.aspire.log_prior = log_prior

    def sample_kwargs(self, checkpoint_cb=None, resume_from=None, path=None, with_cadence=True):
        kw = super().sample_kwargs(checkpoint_cb, resume_from)
        case = self.case
        for k_case, k_kw in (("target", "target_efficiency"), ("min_step", "min_step"), ("max_n_steps", "max_n_steps"),
                             ("rate", "target_efficiency_rate")):
            if k_case in case:
                kw[k_kw] = tuple(case[k_case]) if isinstance(case[k_case], list) else case[k_case]
        if path is not None:
            kw["checkpoint_path"] = path
            if with_cadence:
                kw["checkpoint_every"] = case["ckpt_every"]
        return kw

    def run_file(self, path, resume_from=None, auto=False):
        import minipcn

        minipcn.reset()
        minipcn.step_budget = 400
        try:
            if auto:
                kw = self.sample_kwargs(None, resume_from, None)
                with self.aspire.auto_checkpoint(path, every=self.case["ckpt_every"]):
                    if self.case.get("fit_in_context"):
                        # the documented workflow: fit and sample inside one auto_checkpoint context
                        from aspire.samples import Samples

                        g = np.random.default_rng(self.case["seed"] + 17)
                        data = self.lo + (self.hi - self.lo) * g.uniform(0.2, 0.8, size=(32, self.case["d"]))
                        self.aspire.fit(Samples(data, xp=self.xp, parameters=self.params, dtype=self.dt))
                    out = self.aspire.sample_posterior(**kw)
            else:
                kw = self.sample_kwargs(None, resume_from, path)
                out = self.aspire.sample_posterior(**kw)
        finally:
            minipcn.reset()
        return out


def ext(case):
    """File name extension of the checkpoint file: every spelling the writer accepts."""
    return [".h5", ".hdf5", ".h5", ".HDF5"][int(case.get("seed", 0)) % 4]


def expected_write_iterations(n_it, cadence):
    return [i for i in range(1, n_it + 1) if i % cadence == 0] + [n_it]


def snapshot(samples, hist):
    """Everything the properties compare, as float64/bytes-comparable NumPy data."""
    def arr(a):
        return None if a is None else env.to_np(a).copy()

    out = {
        "x": arr(samples.x), "ll": arr(samples.log_likelihood), "lp": arr(samples.log_prior),
        "log_evidence": arr(samples.log_evidence), "log_evidence_error": arr(samples.log_evidence_error),
        "beta": [float(env.to_np(b)) for b in hist.beta],
    }
    for name in ("ess", "ess_target", "eff_target", "log_norm_ratio", "log_norm_ratio_var", "mcmc_acceptance"):
        out[name] = [np.asarray(env.to_np(v), dtype=np.float64) for v in getattr(hist, name)]
    out["pops"] = [
        {"x": arr(p.x), "ll": arr(p.log_likelihood), "lp": arr(p.log_prior), "lq": arr(p.log_q), "beta": p.beta}
        for p in hist.sample_history
    ]
    return out


def diff_snapshots(a, b):
    """First difference between two run snapshots (None if identical)."""
    def same(u, v):
        if u is None or v is None:
            return u is None and v is None
        u, v = np.asarray(u), np.asarray(v)
        return u.shape == v.shape and u.dtype == v.dtype and np.array_equal(u, v, equal_nan=True)

    if a["beta"] != b["beta"]:
        return f"temperature schedule differs: {b['beta'][:8]} vs uninterrupted {a['beta'][:8]}"
    for name in ("ess", "ess_target", "eff_target", "log_norm_ratio", "log_norm_ratio_var", "mcmc_acceptance"):
        if len(a[name]) != len(b[name]):
            return f"history.{name} has {len(b[name])} entries, uninterrupted run has {len(a[name])}"
        for i, (u, v) in enumerate(zip(a[name], b[name])):
            if not same(u, v):
                return f"history.{name}[{i}] = {v!r}, uninterrupted run {u!r}"
    if len(a["pops"]) != len(b["pops"]):
        return f"sample_history has {len(b['pops'])} populations, uninterrupted run has {len(a['pops'])}"
    for t, (p, q) in enumerate(zip(a["pops"], b["pops"])):
        for f in ("x", "ll", "lp", "lq"):
            if not same(p[f], q[f]):
                return f"population {t}: field {f} differs from the uninterrupted run"
        if p["beta"] != q["beta"]:
            return f"population {t}: beta {q['beta']!r} vs {p['beta']!r}"
    for f in ("x", "ll", "lp", "log_evidence", "log_evidence_error"):
        if not same(a[f], b[f]):
            return f"final {f} differs from the uninterrupted run ({np.asarray(b[f]).reshape(-1)[:3]} vs {np.asarray(a[f]).reshape(-1)[:3]})"
    return None


def read_file(path):
    """(has_config, sampler_type, has_flow, checkpoint bytes or None)"""
    from aspire.utils import AspireFile, load_from_h5_file

    if not os.path.exists(path):
        return False, None, False, None
    with AspireFile(path, "r") as h:
        has_cfg = "aspire_config" in h
        st_ = None
        if has_cfg:
            cfg = load_from_h5_file(h, "aspire_config")
            st_ = cfg.get("sampler_type")
        has_flow = "flow" in h
        blob = None
        if "checkpoint" in h and "state" in h["checkpoint"]:
            blob = h["checkpoint"]["state"][...].tobytes()
    return has_cfg, st_, has_flow, blob


def tmpdir():
    return tempfile.mkdtemp(prefix="ckpt-")


def rmtree(d):
    shutil.rmtree(d, ignore_errors=True)
