"""Reference formulas in float64 NumPy / exact Python arithmetic, independent of aspire."""
from __future__ import annotations

import math

import numpy as np


def lse(v):
    """log-sum-exp of a float64 vector, max-shifted, exact summation."""
    v = np.asarray(v, dtype=np.float64)
    m = float(np.max(v))
    if not math.isfinite(m):
        return m
    return m + math.log(math.fsum(np.exp(v - m).tolist()))


def log_mean_exp(v):
    return lse(v) - math.log(len(v))


def ess(log_w):
    """(sum w)^2 / sum w^2 from log-weights."""
    v = np.asarray(log_w, dtype=np.float64)
    m = float(np.max(v))
    u = np.exp(v - m)
    s1 = math.fsum(u.tolist())
    s2 = math.fsum((u * u).tolist())
    return s1 * s1 / s2


def rel_evidence_error(log_w):
    """sqrt( sum (w_i/Zhat - 1)^2 / (N (N-1)) ), Zhat = mean w  (relative standard error)."""
    v = np.asarray(log_w, dtype=np.float64)
    n = len(v)
    u = np.exp(v - float(np.max(v)))
    mean_u = math.fsum(u.tolist()) / n
    r = u / mean_u - 1.0
    return math.sqrt(math.fsum((r * r).tolist()) / (n * (n - 1)))


def softmax(log_w):
    v = np.asarray(log_w, dtype=np.float64)
    m = np.max(v)
    u = np.exp(v - m)
    return u / math.fsum(u.tolist())


def eps_of(width):
    return float(np.finfo(np.float32 if width == "float32" else np.float64).eps)


# ---- transforms (closed forms, float64) --------------------------------------

def logit_fwd(x, lo, hi, eps):
    """y, log|dy/dx| summed over last axis for the bounded logit map with clipping margin."""
    x = np.asarray(x, dtype=np.float64)
    u = (x - lo) / (hi - lo)
    u = np.clip(u, eps, 1 - eps) if eps else u
    y = np.log(u) - np.log1p(-u)
    lj = (-np.log(u) - np.log1p(-u) - np.log(hi - lo)).sum(-1)
    return y, lj


def logit_inv(y, lo, hi):
    y = np.asarray(y, dtype=np.float64)
    u = 1.0 / (1.0 + np.exp(-y))
    x = lo + (hi - lo) * u
    lj = (np.log(u) + np.log1p(-u) + np.log(hi - lo)).sum(-1)
    return x, lj


def probit_fwd(x, lo, hi, eps):
    from scipy.special import ndtri

    x = np.asarray(x, dtype=np.float64)
    u = (x - lo) / (hi - lo)
    u = np.clip(u, eps, 1 - eps) if eps else u
    y = ndtri(u)
    lj = (0.5 * (math.log(2 * math.pi) + y**2) - np.log(hi - lo)).sum(-1)
    return y, lj


def probit_inv(y, lo, hi):
    from scipy.special import ndtr

    y = np.asarray(y, dtype=np.float64)
    u = ndtr(y)
    x = lo + (hi - lo) * u
    lj = (-0.5 * (math.log(2 * math.pi) + y**2) + np.log(hi - lo)).sum(-1)
    return x, lj
