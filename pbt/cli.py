"""./check <ID> [--tier quick|thorough] [--replay file] [--examples n] [--shards k]"""
import argparse
import os
import sys
import traceback


def main():
    ap = argparse.ArgumentParser()
    ap.add_argument("prop")
    ap.add_argument("--tier", default=os.environ.get("VERIF_TIER", "quick"), choices=["quick", "thorough"])
    ap.add_argument("--replay", default=None)
    ap.add_argument("--examples", type=int, default=None)
    ap.add_argument("--shards", type=int, default=None)
    ap.add_argument("--seed", type=int, default=None)
    a = ap.parse_args()
    seed = a.seed if a.seed is not None else int(os.environ.get("VERIF_SEED", "1") or 1)
    try:
        from . import runner

        repo_src = os.path.realpath(os.path.join(os.environ.get("ASPIRE_REPO", "/repo"), "src"))
        import aspire

        if not os.path.realpath(aspire.__file__).startswith(repo_src):
            print(f"HARNESS-ERROR: aspire imported from {aspire.__file__}, not {repo_src}", file=sys.stderr)
            return 2
        return runner.run_check(a.prop.upper(), a.tier, seed, replay=a.replay, examples=a.examples, shards=a.shards)
    except Exception as e:  # noqa: BLE001
        print(f"HARNESS-ERROR: {type(e).__name__}: {e}", file=sys.stderr)
        traceback.print_exc()
        return 2


if __name__ == "__main__":
    sys.exit(main())
