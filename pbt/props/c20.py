"""C20 - runs are reproducible given the same explicit random sources."""
from __future__ import annotations

import copy

import numpy as np
from hypothesis import strategies as st

from .. import ckpt_common as cc
from .. import env
from .. import runs_common as rc

ID = "C20"
LEVEL = "exploration"
BUDGET = {"quick": 320, "thorough": 16000}
SHARDS = {"quick": 8, "thorough": 16}
RULE = (
    "case = component in {Zuko flow construction+training+sampling (seed), FlowJax (key), importance sampling with a trained "
    "Zuko flow, SMC (MiniPCN kernel), MiniPCN MCMC, emcee MCMC} x way of supplying the random source (flow constructor seed / "
    "key; sampler constructor rng; sampler.sample(rng=); Aspire.sample_posterior(rng=)) x namespace x seeds x preconditioning x "
    "schedule. Oracle: two runs built from scratch with equal seeds are bit-identical (samples, log-densities, weights, evidence, every "
    "history series and population, training / validation loss); a third run with another seed differs (guards against "
    "vacuity); a generator supplied by the user was consumed by the run (its state afterwards differs from a fresh generator of the "
    "same seed); when the sampler object is run a second time with another generator, that generator is drawn from and the first one is not. Non-trivial = sampler != importance, or the source supplied through the top-level call."
)
RULE += " " + ('For JAX-namespace SMC cases the BlackJAX SMC constructor is given a generator and must hold on to that object; the kernel double draws one bounded integer per step.')
ASSUMPTIONS = [
    "runs are executed one after the other in one process; each run constructs its own flow, Aspire instance and generators",
    "kernel packages are harness doubles: minipcn's double draws only from the generator it is given; emcee's double (like emcee) is "
    "given no generator by aspire",
    "emcee-based SMC accepts no generator at all and is therefore outside the property; BlackJAX cannot run",
    "TORCHDYNAMO_DISABLE=1 (compilation is assumed semantics-preserving)",
]

COMPONENTS = ["zuko", "zuko", "flowjax", "importance", "smc", "smc", "smc", "minipcn", "minipcn", "emcee"]


@st.composite
def _case(draw):
    comp = draw(st.sampled_from(COMPONENTS if draw(st.integers(0, 5)) else ["smc", "minipcn", "zuko", "importance", "emcee"]))
    if comp == "flowjax" and draw(st.integers(0, 3)):
        comp = "zuko"
    seed = draw(st.integers(0, 2**31 - 1))
    seed2 = draw(st.integers(0, 2**31 - 1).filter(lambda s: s != seed))
    case = {"component": comp, "seed": seed, "seed2": seed2, "d": draw(st.integers(1, 3)),
            "ns": draw(st.sampled_from(["numpy", "numpy", "torch", "jax"])), "width": draw(st.sampled_from([None, "float32", "float64"]))}
    if comp in ("zuko", "flowjax", "importance"):
        case["epochs"] = draw(st.integers(1, 3))
        case["n_train"] = draw(st.integers(20, 60))
        case["bounded"] = draw(st.booleans())
        case["save_flow"] = draw(st.booleans())
        return case
    base = draw(rc.run_case(samplers=[comp]))
    base.update(case)
    base["sampler"] = comp
    base["route"] = draw(st.sampled_from(["top", "top", "sample", "ctor"] if comp == "smc" else ["top", "sample"]))
    base["ckpt_every"] = None
    base["resume_pick"] = None
    # the user's script defines the kernel options dict once and passes the same object to every run
    base["shared_kwargs"] = draw(st.booleans())
    return base


def cases(tier):
    return _case()


def _flow_run(case, seed):
    """construct + fit + draw, for the flow back-ends (and importance sampling on top)."""
    from aspire import Aspire
    from aspire.samples import Samples

    d = case["d"]
    comp = case["component"]
    xp = env.xp_of(case["ns"] if comp == "importance" else ("jax" if comp == "flowjax" else "torch"))
    g = np.random.default_rng(12345)
    data = g.uniform(0.1, 0.9, size=(case["n_train"], d))
    params = [f"p{i}" for i in range(d)]

    def log_likelihood(s):
        return -0.5 * xp.sum((s.x - 0.5) ** 2 / 0.04, axis=-1)

    def log_prior(s):
        return xp.zeros(s.x.shape[0], dtype=s.x.dtype)

    kw = {}
    backend = "flowjax" if comp == "flowjax" else "zuko"
    if backend == "zuko":
        kw.update(seed=seed, hidden_features=[8], transforms=1)
    else:
        import jax

        env.jax()
        kw.update(key=jax.random.key(seed), flow_layers=1, nn_width=8)
    a = Aspire(log_likelihood=log_likelihood, log_prior=log_prior, dims=d, parameters=params, flow_backend=backend,
               prior_bounds={p: [0.0, 1.0] for p in params} if case["bounded"] else None, xp=xp, dtype=case["width"], **kw)
    fit_kw = {"n_epochs": case["epochs"], "batch_size": 16} if backend == "zuko" else {"max_epochs": case["epochs"], "batch_size": 16, "show_progress": False}
    if case.get("save_flow"):
        # the run checkpoints its proposal (fit writes the flow to a file) - saving must not disturb the random streams
        import os
        import shutil
        import tempfile

        tmp = tempfile.mkdtemp(prefix="c20-")
        try:
            hist = a.fit(Samples(data, xp=xp, dtype=case["width"]), checkpoint_path=os.path.join(tmp, "run.h5"), **fit_kw)
        finally:
            shutil.rmtree(tmp, ignore_errors=True)
    else:
        hist = a.fit(Samples(data, xp=xp, dtype=case["width"]), **fit_kw)
    out = {"train": [float(v) for v in hist.training_loss], "val": [float(v) for v in hist.validation_loss]}
    fx, flq = a.flow.sample_and_log_prob(7)
    out["flow_x"] = env.to_np(fx).copy()
    out["flow_lq"] = env.to_np(flq).copy()
    if comp == "importance":
        s = a.sample_posterior(n_samples=9, sampler="importance")
        out["x"] = env.to_np(s.x).copy()
        out["log_w"] = env.to_np(s.log_w).copy()
        out["log_evidence"] = env.to_np(s.log_evidence).copy()
    return out


_MOVED = {}


_SECOND = {}


def _sampler_run(case, seed, second=False):
    import emcee
    import minipcn

    # the proposal keeps the case's seed in every run: only the supplied generator's seed varies
    P = rc.Problem(dict(case), flow_seed=case["seed"])
    gen = np.random.default_rng(seed)
    kw = P.sample_kwargs()
    kw.pop("rng", None)
    route = case["route"]
    minipcn.reset(); emcee.reset()
    minipcn.step_budget = 400
    np.random.seed(12345)  # the emcee double's (global) source is NOT what the property is about: keep it fixed
    try:
        if route == "top":
            res = P.aspire.sample_posterior(rng=gen, **kw)
        else:
            n = kw.pop("n_samples"); stype = kw.pop("sampler")
            pre = kw.pop("preconditioning", None); prek = kw.pop("preconditioning_kwargs", None)
            rh = kw.pop("return_history", False)
            if route == "ctor":
                sampler = P.aspire.init_sampler(stype, preconditioning=pre, preconditioning_kwargs=prek, rng=gen)
                s = sampler.sample(n, **kw)
            else:
                sampler = P.aspire.init_sampler(stype, preconditioning=pre, preconditioning_kwargs=prek)
                s = sampler.sample(n, rng=gen, **kw)
            res = (s, sampler.history) if rh else s
            if second:
                # the same sampler object is run again with ANOTHER generator: that one must be drawn from, the first one not
                after1 = copy.deepcopy(gen.bit_generator.state)
                gen2 = np.random.default_rng(seed + 1)
                kw2 = P.sample_kwargs()
                for k_ in ("rng", "n_samples", "sampler", "preconditioning", "preconditioning_kwargs", "return_history"):
                    kw2.pop(k_, None)
                minipcn.reset(); emcee.reset()
                minipcn.step_budget = 400
                try:
                    sampler.sample(n, rng=gen2, **kw2)
                    _SECOND[id(gen)] = {"g2_consumed": gen2.bit_generator.state != np.random.default_rng(seed + 1).bit_generator.state,
                                        "g1_untouched": gen.bit_generator.state == after1}
                except ValueError as e:
                    if "NaN values" not in str(e):
                        raise
    except ValueError as e:
        if "NaN values" in str(e):
            return None, gen
        raise
    finally:
        minipcn.reset(); emcee.reset()
    if isinstance(res, tuple):
        snap = cc.snapshot(res[0], res[1])
    else:
        snap = {"x": env.to_np(res.x).copy(), "ll": env.to_np(res.log_likelihood).copy(), "lp": env.to_np(res.log_prior).copy()}
        if getattr(res, "log_evidence", None) is not None:
            snap["log_evidence"] = np.asarray(env.to_np(res.log_evidence)).copy()
    # did the kernel move anything?  (a final coordinate that is not one of the proposal's draws)
    handed = np.concatenate([h[0] for h in P.flow.handed]) if P.flow.handed else np.zeros((0, case["d"]))
    xs = np.asarray(snap["x"], dtype=np.float64)
    # a kernel move is of the order of the population spread; a round trip through the preconditioning map only perturbs the last digits
    scale = (handed.std(0) + 1e-12) if len(handed) else np.ones(case["d"])
    dist = np.abs(xs[:, None, :] - handed[None, :, :]) / scale
    snap_moved = bool((dist.max(-1).min(-1) > 1e-3).any()) if len(handed) else True
    _MOVED[id(gen)] = snap_moved
    return snap, gen


def _flat_equal(a, b):
    if isinstance(a, dict):
        if not isinstance(b, dict) or set(a) != set(b):
            return "keys differ"
        for k in a:
            r = _flat_equal(a[k], b[k])
            if r:
                return f"{k}: {r}" if r is not True else k
        return None
    if isinstance(a, (list, tuple)):
        if len(a) != len(b):
            return f"length {len(a)} vs {len(b)}"
        for i, (u, v) in enumerate(zip(a, b)):
            r = _flat_equal(u, v)
            if r:
                return f"[{i}] {r}"
        return None
    if a is None or b is None:
        return None if (a is None and b is None) else "None vs value"
    u, v = np.asarray(a), np.asarray(b)
    if u.shape != v.shape or u.dtype != v.dtype or not np.array_equal(u, v, equal_nan=True):
        return f"{u.reshape(-1)[:3]} vs {v.reshape(-1)[:3]}"
    return None


def _known_emcee(case, details):
    return case.get("component") == "emcee"


KNOWN_PREDICATES = {"emcee_ignores_rng": _known_emcee}


def run_case(case, ctx):
    rc.SHARED.clear()
    rc.SHARED_ON[0] = False
    comp = case["component"]
    labels = [comp, case["ns"], str(case["width"])]
    if comp in ("zuko", "flowjax", "importance"):
        if case.get("save_flow"):
            labels.append("flow-saved-before-sampling")
        r1 = _flow_run(case, case["seed"])
        r2 = _flow_run(case, case["seed"])
        diff = _flat_equal(r1, r2)
        if diff:
            ctx.fail(f"not-reproducible:{comp}", f"two {comp} runs built from the same seed differ at {diff}", case)
        r3 = _flow_run(case, case["seed2"])
        if not _flat_equal(r1, r3):
            ctx.fail(f"seed-ignored:{comp}", f"a {comp} run with a different seed is identical: the seed is not used", case)
        return {"nontrivial": comp != "zuko" and comp != "flowjax" or True, "labels": labels}
    labels += ["route:" + case["route"], "pre:" + case["pre"]]
    if comp == "smc" and case["ns"] == "jax":
        # the BlackJAX SMC variant cannot run here (package absent), but its constructor can be given a generator: the sampler must
        # hold on to that very object (observed through the attribute every SMC sampler of the pinned tree resamples from)
        Pb = rc.Problem(dict(case), flow_seed=case["seed"])
        gb = np.random.default_rng(case["seed"])
        try:
            sb = Pb.aspire.init_sampler("blackjax_smc", rng=gb)
        except ImportError:
            sb = None
        if sb is not None and hasattr(sb, "rng"):
            labels.append("blackjax-constructor")
            if sb.rng is not gb:
                ctx.fail("generator-dropped:blackjax_smc", "the generator given to the BlackJAX SMC sampler's constructor is not the one the sampler holds "
                                                           "(resampling would draw from another source)", case)
    rc.SHARED.clear()
    rc.SHARED_ON[0] = bool(case.get("shared_kwargs"))
    if case.get("shared_kwargs"):
        labels.append("shared-kwargs-dict")
    # (emcee is given no generator at all - the recorded finding - so a second call cannot tell anything new about it)
    s1, g1 = _sampler_run(case, case["seed"], second=comp != "emcee")
    sec = _SECOND.pop(id(g1), None)
    if sec is not None:
        labels.append("sampler-run-again")
        if not sec["g2_consumed"] or not sec["g1_untouched"]:
            ctx.fail(f"second-call-generator:{comp}", f"a second sample(rng=g2) call on the same {comp} sampler object "
                                                      f"{'never drew from g2' if not sec['g2_consumed'] else 'drew from g2'} and "
                                                      f"{'kept drawing from the generator of the first call' if not sec['g1_untouched'] else 'left the first generator alone'}",
                     case, route=case["route"], **sec)
    if s1 is None:
        return {"nontrivial": False, "labels": labels + ["rejected:documented-NaN-ValueError"]}
    s2, g2 = _sampler_run(case, case["seed"])
    diff = _flat_equal(s1, s2) if s2 is not None else "second run rejected"
    if diff:
        ctx.fail(f"not-reproducible:{comp}:{case['route']}",
                 f"two {comp} runs given generators of the same seed via {case['route']} differ at {diff}", case, route=case["route"])
    fresh = np.random.default_rng(case["seed"])
    if g1.bit_generator.state == fresh.bit_generator.state:
        ctx.fail(f"rng-not-consumed:{comp}", f"the generator supplied via {case['route']} to the {comp} sampler was never drawn from "
                                             f"(the sampler uses another random source)", case, route=case["route"])
    elif _MOVED.get(id(g1)):
        # only meaningful if the kernel accepted at least one move in the first run: then another noise stream cannot reproduce it
        # (if every move was rejected, two different streams legitimately return the same, unmoved, points)
        s3, _ = _sampler_run(case, case["seed2"])
        if s3 is not None and not _flat_equal(s1, s3):
            ctx.fail(f"seed-ignored:{comp}", f"a {comp} run with a different generator seed is identical", case)
    return {"nontrivial": True, "labels": labels}
