"""C19 - temporary overrides are fully restored on every exit path."""
from __future__ import annotations

import copy
import itertools
import os
import shutil
import tempfile

import numpy as np
from hypothesis import strategies as st

from .. import env

ID = "C19"
LEVEL = "fault_enumeration"
BUDGET = {"quick": 1200, "thorough": 160000}
SHARDS = {"quick": 8, "thorough": 16}
RULE = (
    "case = a tree of nested contexts over one Aspire instance: enable_pool(pool, close_pool, parallelize_prior) and "
    "auto_checkpoint(path in {f0, f1}, every, save_config, save_flow) - so nested contexts may target the same file with other options -, with bodies made of no-ops, fit() and sample_posterior(importance) "
    "calls, and an exception injected at one position (before/after each nested context, in the innermost body, or inside a "
    "sampling call through the likelihood) or nowhere; the injected object is an Exception subclass or a BaseException that is not one (like KeyboardInterrupt). (1) exhaustive, on every run: all chains of depth 1..3 over 8 context "
    "variants x every injection position x {no-op body, sampling body} ('exhaustive' refers to this part); (2) generated: trees of depth <= 4 "
    "with siblings and mixed bodies. Oracle: at every context exit (normal or exceptional) identity of log_likelihood / "
    "log_prior and a deep copy of the checkpoint defaults (or their absence) equal the snapshot taken at that context's entry; the "
    "recording fake pool saw close+join exactly once iff close_pool, never before exit; the injected exception propagates "
    "unchanged. Non-trivial = depth >= 2 with an injected exception."
)
RULE += " " + ('Pairs of pool handlers may be created before either is entered (then entered nested).')
ASSUMPTIONS = [
    "the pool is a recording fake with map/close/join (no processes are started)",
    "user callables accept map_fn, as enable_pool documents",
    "sampling inside a context uses the importance sampler with an analytic proposal double",
]

VARIANTS = [
    {"ctx": "pool", "close_pool": True, "parallelize_prior": False},
    {"ctx": "pool", "close_pool": False, "parallelize_prior": False},
    {"ctx": "pool", "close_pool": True, "parallelize_prior": True},
    {"ctx": "pool", "close_pool": False, "parallelize_prior": True},
    # two file names only: nested contexts (and repeated ones) may target the same file with different options
    {"ctx": "auto", "every": 1, "save_config": True, "save_flow": True, "path": 0},
    {"ctx": "auto", "every": 3, "save_config": False, "save_flow": True, "path": 1},
    {"ctx": "auto", "every": 2, "save_config": True, "save_flow": False, "path": 0},
    {"ctx": "auto", "every": 1, "save_config": False, "save_flow": False, "path": 1},
]


class InjectedFault(Exception):
    pass


class InjectedInterrupt(BaseException):
    """an interruption that is not an Exception subclass (like KeyboardInterrupt / SystemExit)"""


class PoolShutdownError(RuntimeError):
    """raised by a pool whose close() fails (e.g. a remote / MPI pool)"""


class PoolShutdownInterrupt(BaseException):
    """an interruption arriving while the pool is being joined (like Ctrl-C during join())"""


# pools whose own shutdown fails: leaving the context through THAT exception is one more exit path
FAULTY = [
    {"ctx": "pool", "close_pool": True, "parallelize_prior": True, "pool_fault": "close"},
    {"ctx": "pool", "close_pool": True, "parallelize_prior": False, "pool_fault": "join"},
]


class FakePool:
    def __init__(self, fault=None):
        self.closed = 0
        self.joined = 0
        self.maps = 0
        self.fault = fault

    def map(self, fn, it):
        self.maps += 1
        return list(map(fn, it))

    def close(self):
        self.closed += 1
        if self.fault == "close":
            raise PoolShutdownError("close failed")

    def join(self):
        self.joined += 1
        if self.fault == "join":
            raise PoolShutdownInterrupt("interrupted in join")


_MISSING = "<no _checkpoint_defaults attribute>"


def _snap(a):
    d = getattr(a, "_checkpoint_defaults", _MISSING)
    return (a.log_likelihood, a.log_prior, copy.deepcopy(d))


def _same(s1, s2):
    return s1[0] is s2[0] and s1[1] is s2[1] and s1[2] == s2[2]


class Runner:
    def __init__(self, case, ctx):
        from pbt_flows import AnalyticFlow

        from aspire import Aspire

        self.case = case
        self.ctx = ctx
        self.tmp = tempfile.mkdtemp(prefix="c19-")
        self.counter = 0
        self.fault_at = case.get("fault_at")
        self.fault = None
        self.lik_fault = False
        self.depth_at_fault = 0
        self.max_depth = 0
        self.pool_seen_by_likelihood = []
        self.shared_pool = None
        xp = env.xp_of("numpy")
        me = self

        def log_likelihood(samples, map_fn=None):
            me.pool_seen_by_likelihood.append(map_fn)
            if me.lik_fault:
                me.lik_fault = False
                me.fault = (InjectedInterrupt if me.case.get("fault_kind") == "interrupt" else InjectedFault)("inside sampling")
                raise me.fault
            return -0.5 * xp.sum(samples.x**2, axis=-1)

        def log_prior(samples, map_fn=None):
            return xp.zeros(samples.x.shape[0])

        self.a = Aspire(log_likelihood=log_likelihood, log_prior=log_prior, dims=2, parameters=["a", "b"],
                        flow=AnalyticFlow(2, kind="normal", seed=1), flow_backend="pbt_analytic", xp=xp)

        # handlers created up front (before any context is entered), as with contextlib.ExitStack or a handler kept in a variable
        self.prebuilt = {}

        def prebuild(items):
            for it in items:
                if "ctx" in it:
                    if it.get("prebuilt") and it["ctx"] == "pool":
                        pool = FakePool()
                        self.prebuilt[it["pid"]] = (pool, self.a.enable_pool(pool, close_pool=it["close_pool"], parallelize_prior=it["parallelize_prior"]))
                    prebuild(it.get("body", []))

        prebuild(case["tree"])

    def close(self):
        shutil.rmtree(self.tmp, ignore_errors=True)

    def point(self, depth):
        """A position at which the exception may be injected."""
        k = self.counter
        self.counter += 1
        if self.fault_at is not None and k == self.fault_at:
            self.fault = (InjectedInterrupt if self.case.get("fault_kind") == "interrupt" else InjectedFault)(f"position {k}")
            self.depth_at_fault = depth
            raise self.fault

    def body(self, items, depth):
        from aspire.samples import Samples

        self.max_depth = max(self.max_depth, depth)
        for it in items:
            self.point(depth)
            if "ctx" in it:
                self.context(it, depth)
            elif it["do"] == "sample":
                k = self.counter
                self.counter += 1
                if self.fault_at is not None and k == self.fault_at:
                    self.lik_fault = True
                    self.depth_at_fault = depth
                self.a.sample_posterior(n_samples=4, sampler="importance")
            elif it["do"] == "fit":
                self.a.fit(Samples(np.random.default_rng(0).normal(size=(16, 2)), parameters=["a", "b"]))
        self.point(depth)

    def context(self, node, depth):
        a = self.a
        before = _snap(a)
        pool = None
        if node["ctx"] == "pool":
            if node.get("prebuilt"):
                pool, cm_pre = self.prebuilt[node["pid"]]
            elif node.get("shared"):
                # one pool object used by several (nested or consecutive) contexts of this instance
                if self.shared_pool is None:
                    self.shared_pool = FakePool()
                pool = self.shared_pool
            else:
                pool = FakePool(node.get("pool_fault"))
            pre_exit = None
            cm = cm_pre if node.get("prebuilt") else a.enable_pool(pool, close_pool=node["close_pool"], parallelize_prior=node["parallelize_prior"])
        else:
            cm = a.auto_checkpoint(os.path.join(self.tmp, f"f{node.get('path', 0)}.h5"), every=node["every"],
                                   save_config=node["save_config"], save_flow=node["save_flow"])
        try:
            with cm:
                inside = _snap(a)
                if node["ctx"] == "pool":
                    if getattr(a.log_likelihood, "keywords", {}).get("map_fn") != pool.map:
                        self.ctx.fail("pool-not-installed", "inside enable_pool the likelihood does not use the pool's map", self.case)
                    if node["parallelize_prior"] and getattr(a.log_prior, "keywords", {}).get("map_fn") != pool.map:
                        self.ctx.fail("pool-not-installed", "parallelize_prior=True but the prior does not use the pool's map", self.case)
                    if not node["parallelize_prior"] and a.log_prior is not before[1]:
                        self.ctx.fail("prior-replaced", "parallelize_prior=False but the prior was replaced", self.case)
                else:
                    d = getattr(a, "_checkpoint_defaults", None)
                    # (observed through the attribute the pinned tree uses; if a refactoring moves it, this sub-check is skipped)
                    if d is not None and (d.get("every") != node["every"] or d.get("save_config") != node["save_config"]):
                        self.ctx.fail("auto-not-installed", f"inside auto_checkpoint the defaults are {d!r}", self.case)
                try:
                    self.body(node.get("body", []), depth + 1)
                finally:
                    if pool is not None:
                        pre_exit = (pool.closed, pool.joined)
                if pool is not None and not node.get("shared") and (pool.closed or pool.joined):
                    self.ctx.fail("pool-closed-early", "pool was closed before the context exited", self.case)
        finally:
            after = _snap(a)
            if node["ctx"] == "pool":
                # the pool context owns the callables only; sampling inside it may legitimately update the
                # saved_* bookkeeping of an enclosing auto_checkpoint context
                after = (after[0], after[1], before[2])
            if not _same(before, after):
                what = []
                if before[0] is not after[0]:
                    what.append("log_likelihood")
                if before[1] is not after[1]:
                    what.append("log_prior")
                if before[2] != after[2]:
                    what.append(f"checkpoint defaults ({before[2]!r} -> {after[2]!r})")
                self.ctx.fail("not-restored", f"after leaving {node['ctx']} context at depth {depth} "
                                              f"({'exception' if self.fault is not None else 'normal exit'}): {', '.join(what)} not restored",
                              self.case, ctx_kind=node["ctx"], depth=depth, exceptional=self.fault is not None)
            if pool is not None and not node.get("pool_fault") and pre_exit is not None:
                want = 1 if node["close_pool"] else 0
                got = (pool.closed - pre_exit[0], pool.joined - pre_exit[1])
                if got != (want, want):
                    self.ctx.fail("pool-close", f"close_pool={node['close_pool']} but leaving the context called close/join {got[0]}/{got[1]} times"
                                                f"{' (pool object shared with another context of this instance)' if node.get('shared') else ''}",
                                  self.case, close_pool=node["close_pool"], shared=bool(node.get("shared")))


def run_case(case, ctx):
    r = Runner(case, ctx)
    top = _snap(r.a)
    try:
        try:
            r.body(case["tree"], 0)
            if case.get("fault_at") is not None and r.fault is None and case["fault_at"] < r.counter:
                ctx.fail("fault-not-raised", "harness: injection position was not reached", case)
        except (InjectedFault, InjectedInterrupt) as e:
            if e is not r.fault:
                ctx.fail("exception-identity", "a different exception object propagated", case)
        except (PoolShutdownError, PoolShutdownInterrupt):
            pass  # the pool's own shutdown failed: that exception is the exit path (everything must still be restored)
        if not _same(top, _snap(r.a)):
            ctx.fail("not-restored", "state after the outermost context differs from the state before it", case, depth=0)
    finally:
        r.close()
    injected = r.fault is not None
    depth = r.max_depth
    return {"nontrivial": bool(injected and r.depth_at_fault >= 2 or (injected and depth >= 2)),
            "labels": [f"depth:{depth}", "fault" if injected else "no-fault", f"positions:{min(r.counter, 12)}"]}


def _count_points(tree):
    r = 0

    def walk(items):
        nonlocal r
        for it in items:
            r += 1
            if "ctx" in it:
                walk(it.get("body", []))
            elif it["do"] == "sample":
                r += 1
        r += 1

    walk(tree)
    return r


def extra(tier, ctx, seed):
    n = 0
    ALL = VARIANTS + FAULTY
    for depth in (1, 2, 3):
        # (chains of depth 3 over the 8 ordinary variants; the pools whose shutdown fails take part in depth 1 and 2)
        for combo in itertools.product(range(len(VARIANTS) if depth == 3 else len(ALL)), repeat=depth):
            for inner in ("noop", "sample"):
                tree = [{"do": inner}]
                for v in reversed(combo):
                    tree = [dict(ALL[v], body=tree)]
                npts = _count_points(tree)
                for fault_at in [None] + list(range(npts)):
                    kinds = ["exception"] if (fault_at is None or inner == "sample") else ["exception", "interrupt"]
                    for kind in kinds:
                        case = {"tree": tree, "fault_at": fault_at, "fault_kind": kind, "part": "exhaustive-chain"}
                        ctx.cell(case, run_case)
                        n += 1
    pools = [v for v in VARIANTS if v["ctx"] == "pool"]
    for v1, v2 in itertools.product(pools, repeat=2):
        # both handlers created before either is entered, then entered nested
        tree = [dict(v1, prebuilt=True, pid=0, body=[dict(v2, prebuilt=True, pid=1, body=[{"do": "noop"}])])]
        for fault_at in [None] + list(range(_count_points(tree))):
            ctx.cell({"tree": tree, "fault_at": fault_at, "fault_kind": "exception", "part": "exhaustive-prebuilt-handlers"}, run_case)
            n += 1
        nested = [dict(v1, shared=True, body=[dict(v2, shared=True, body=[{"do": "noop"}])])]
        consecutive = [dict(v1, shared=True, body=[{"do": "noop"}]), dict(v2, shared=True, body=[{"do": "noop"}])]
        for tree in (nested, consecutive):
            for fault_at in [None] + list(range(_count_points(tree))):
                ctx.cell({"tree": tree, "fault_at": fault_at, "fault_kind": "exception", "part": "exhaustive-shared-pool"}, run_case)
                n += 1
    return {"exhaustive": True, "exhaustive_chain_cases": n,
            "exhaustive_note": "all chains of depth 1..3 over 8 context variants (depth 1..2: plus 2 pools whose close()/join() raises) x every injection position x {no-op, sampling} body; plus every nested / consecutive pair of pool contexts on ONE shared pool object x every injection position"}


# ---- generated trees ---------------------------------------------------------------------------
_op = st.sampled_from([{"do": "noop"}, {"do": "noop"}, {"do": "sample"}, {"do": "fit"}])


def _node(children):
    def mk(v, body, shared):
        node = dict((VARIANTS + FAULTY)[v], body=body)
        if shared and node["ctx"] == "pool" and not node.get("pool_fault"):
            node["shared"] = True
        return node

    return st.builds(mk, st.integers(0, len(VARIANTS) + len(FAULTY) - 1), st.lists(children, min_size=0, max_size=3), st.sampled_from([False, False, True]))


_tree = st.recursive(_op, _node, max_leaves=8)


@st.composite
def _case(draw):
    tree = draw(st.lists(_tree, min_size=1, max_size=3))
    npts = _count_points(tree)
    fault = draw(st.one_of(st.none(), st.integers(0, max(npts - 1, 0))))
    return {"tree": tree, "fault_at": fault, "fault_kind": draw(st.sampled_from(["exception", "exception", "interrupt"])), "part": "generated"}


def cases(tier):
    return _case()
