"""C01 - posterior samples and evidence are statistically correct on known targets."""
from __future__ import annotations

import math

import numpy as np
from hypothesis import strategies as st

from .. import env

ID = "C01"
LEVEL = "exploration"
BUDGET = {"quick": 48, "thorough": 800}
SHARDS = {"quick": 8, "thorough": 16}
SHRINK = {"quick": False, "thorough": False}
RULE = (
    "case = analytic target (Gaussian likelihood x uniform box prior with the mean anywhere in the box incl. within one sigma of a "
    "bound => truncated normal; the same with a hard likelihood edge inside the box (log L = -inf below it); von-Mises likelihood x uniform prior on a circle, declared periodic; 1-4 dims) x sampler "
    "(importance, SMC with MiniPCN kernel double, SMC with emcee kernel double) x preconditioning (none, default, bounded logit / "
    "probit, affine, periodic wrap, combinations) x proposal (analytic normal wider than the posterior, optionally leaking mass "
    "outside the box; logit-normal or uniform supported on the box) x namespace x N x schedule (adaptive / fixed). Each case runs R "
    "independent replicates (quick 32, thorough 96; seeds drawn by Hypothesis). Oracle: replicate mean of Zhat/Z within "
    "7 sd/sqrt(R) + 4/ESS of 1 (ESS = median over replicates of the smallest effective sample size met during the run; closed-form Z from normal CDFs / Bessel I0); replicate-averaged posterior mean and variance "
    "(circular mean and resultant length for the periodic target) within 7 SE + 4 sd/ESS of the closed form (scipy truncnorm / I1/I0); "
    "no returned SMC sample may lie outside the prior support. "
    "A failing case is re-run with 4R fresh replicates and only reported if it fails again. "
    "Non-trivial = sampler is SMC or preconditioning != none, with posterior != proposal; distinct = distinct case hash."
)
ASSUMPTIONS = [
    "calibrated Monte-Carlo bounds: 7 standard errors of the replicate mean plus an O(1/N) bias allowance; a defect that shifts an "
    "estimator by less than that is invisible (the achieved SE is reported per case class in the evidence)",
    "kernel packages are harness doubles (symmetric random-walk Metropolis, invariant for whatever target it is handed)",
    "proposals are at least 1.6x wider than the posterior in every dimension so importance weights have finite variance",
    "runs raising the documented 'contains NaN values' ValueError are dropped (counted); a case with >25% dropped replicates is skipped",
    "cases whose particle system degenerates (median smallest ESS < 12) are skipped and counted: Monte-Carlo error is not meaningful there",
    "BlackJAX SMC cannot run; flow-based preconditioning (a tiny Zuko flow retrained at every iteration) is exercised in the thorough tier only (1 case in 8 of the MiniPCN-SMC cases)",
]

PRE = ["none", "default", "logit", "probit", "affine", "logit+affine", "probit+affine"]


@st.composite
def _case(draw):
    target = draw(st.sampled_from(["gauss", "gauss", "trunc", "trunc", "edge", "circle"]))
    d = 1 if target == "circle" else draw(st.integers(1, 4))
    sampler = draw(st.sampled_from(["importance", "smc", "smc", "emcee_smc"]))
    pre = draw(st.sampled_from(PRE if target != "circle" else ["periodic", "periodic", "none"]))
    if sampler == "importance":
        pre = draw(st.sampled_from(["none", "none", "default"]))
    if target == "circle" and sampler == "importance":
        pre = "none"
    case = {
        "target": target, "d": d, "sampler": sampler, "pre": pre,
        "ns": draw(st.sampled_from(["numpy", "numpy", "numpy", "torch", "jax"])),
        "n": draw(st.sampled_from([150, 250, 400])),
        "mu_u": [draw(st.floats(0.3, 0.7)) if target != "trunc" else draw(st.sampled_from([0.03, 0.97, 0.08, 0.5])) for _ in range(d)],
        "edge_u": draw(st.sampled_from([0.35, 0.5, 0.6])),
        "sig_u": [draw(st.sampled_from([0.04, 0.07, 0.1])) for _ in range(d)],
        "kappa": draw(st.sampled_from([0.5, 2.0, 5.0])),
        "q": draw(st.sampled_from(["normal", "normal-leak", "logitnormal", "uniform"] if target != "circle" else ["uniform", "normal-leak"])),
        "q_widen": draw(st.sampled_from([1.6, 2.0, 3.0])),
        "q_shift": draw(st.sampled_from([0.0, 0.5, -0.5])),
        "adaptive": draw(st.booleans()), "n_steps": draw(st.integers(3, 8)), "kernel_steps": draw(st.integers(2, 5)),
        "target_eff": draw(st.sampled_from([0.5, 0.8])),
        "seed": draw(st.integers(0, 2**31 - 1)),
    }
    return case


@st.composite
def _case_thorough(draw):
    c = draw(_case())
    # thorough tier only (each replicate trains a tiny Zuko flow per iteration): flow-based preconditioning
    if c["sampler"] == "smc" and c["target"] != "circle" and c["ns"] in ("numpy", "torch") and draw(st.integers(0, 7)) == 0:
        c["pre"] = "flow"
        c["n"] = 150
    return c


def cases(tier):
    return _case() if tier == "quick" else _case_thorough()


class Target:
    def __init__(self, case):
        from scipy import special, stats

        d = case["d"]
        self.case = case
        if case["target"] == "circle":
            self.lo = np.array([0.0])
            self.hi = np.array([2 * np.pi])
            self.m = 2 * np.pi * case["mu_u"][0]
            self.kappa = case["kappa"]
            self.logZ = math.log(special.i0(self.kappa))  # prior 1/2pi, likelihood exp(kappa cos)
            self.R = special.i1(self.kappa) / special.i0(self.kappa)
            return
        self.lo = np.array([-1.0, 0.0, 2.0, -5.0][:d])
        self.hi = np.array([2.0, 4.0, 2.5, 5.0][:d])
        w = self.hi - self.lo
        self.mu = self.lo + w * np.array(case["mu_u"])
        self.sig = w * np.array(case["sig_u"])
        # "edge": the likelihood is zero (log L = -inf) for x0 below a threshold inside the prior box
        self.edge = None
        lo_eff = self.lo.copy()
        if case["target"] == "edge":
            self.edge = float(self.lo[0] + case["edge_u"] * w[0])
            lo_eff[0] = self.edge
        a, b = (lo_eff - self.mu) / self.sig, (self.hi - self.mu) / self.sig
        mass = stats.norm.cdf(b) - stats.norm.cdf(a)
        self.logZ = float(np.sum(np.log(mass) - np.log(w)))
        self.mean = stats.truncnorm.mean(a, b, loc=self.mu, scale=self.sig)
        self.var = stats.truncnorm.var(a, b, loc=self.mu, scale=self.sig)

    def callables(self, xp):
        c = self.case
        if c["target"] == "circle":
            m, k = self.m, self.kappa

            def log_likelihood(s):
                return k * xp.cos(s.x[:, 0] - m)

            def log_prior(s):
                x = s.x[:, 0]
                return xp.where((x >= 0) & (x <= 2 * math.pi), xp.asarray(-math.log(2 * math.pi), dtype=x.dtype), xp.asarray(-np.inf, dtype=x.dtype))

            return log_likelihood, log_prior
        mu, sig, lo, hi = self.mu, self.sig, self.lo, self.hi
        lognorm = float(-np.sum(np.log(sig)) - 0.5 * len(sig) * math.log(2 * math.pi))
        logw = float(np.sum(np.log(hi - lo)))

        edge = self.edge

        def log_likelihood(s):
            x = s.x
            val = lognorm - 0.5 * xp.sum(((x - xp.asarray(mu, dtype=x.dtype)) / xp.asarray(sig, dtype=x.dtype)) ** 2, axis=-1)
            if edge is not None:
                val = xp.where(x[:, 0] >= edge, val, xp.asarray(-np.inf, dtype=x.dtype))
            return val

        def log_prior(s):
            x = s.x
            inside = xp.all((x >= xp.asarray(lo, dtype=x.dtype)) & (x <= xp.asarray(hi, dtype=x.dtype)), axis=-1)
            return xp.where(inside, xp.asarray(-logw, dtype=x.dtype), xp.asarray(-np.inf, dtype=x.dtype))

        return log_likelihood, log_prior

    def proposal(self, seed):
        """analytic proposal and the fraction c of its mass inside the prior support"""
        from pbt_flows import AnalyticFlow
        from scipy import stats

        c = self.case
        d = c["d"]
        lo, hi = self.lo, self.hi
        w = hi - lo
        if c["q"] == "uniform":
            return AnalyticFlow(d, kind="uniform", lower=lo, upper=hi, seed=seed), 1.0
        if c["target"] == "circle":
            loc = np.array([self.m + c["q_shift"]])
            scale = np.array([c["q_widen"] * max(1.0 / math.sqrt(self.kappa), 0.6)])
        else:
            loc = self.mean + c["q_shift"] * np.sqrt(self.var)
            scale = c["q_widen"] * np.sqrt(self.var) + 0.02 * w
        if c["q"] == "logitnormal":
            u = np.clip((loc - lo) / w, 0.05, 0.95)
            yl = np.log(u) - np.log1p(-u)
            ys = np.clip(scale / (w * u * (1 - u)), 0.3, 2.5)
            return AnalyticFlow(d, kind="logitnormal", loc=yl, scale=ys, lower=lo, upper=hi, seed=seed), 1.0
        if c["q"] == "normal":
            # keep essentially all mass inside the box: shrink towards the box if necessary
            scale = np.minimum(scale, np.minimum(loc - lo, hi - loc) / 4.5)
            scale = np.maximum(scale, 1.6 * np.sqrt(self.var) if c["target"] != "circle" else scale)
        inside = float(np.prod(stats.norm.cdf((hi - loc) / scale) - stats.norm.cdf((lo - loc) / scale)))
        return AnalyticFlow(d, kind="normal", loc=loc, scale=scale, seed=seed), inside


def _one_run(case, T, seed):
    import emcee
    import minipcn
    from aspire import Aspire

    xp = env.xp_of(case["ns"])
    ll, lp = T.callables(xp)
    flow, c_in = T.proposal(seed)
    d = case["d"]
    params = [f"p{i}" for i in range(d)]
    fkw = ({"flow_backend": "zuko", "hidden_features": [8], "transforms": 1, "seed": seed % 10**6} if case["pre"] == "flow"
           else {"flow_backend": "pbt_analytic"})
    a = Aspire(log_likelihood=ll, log_prior=lp, dims=d, parameters=params,
               prior_bounds={p: [float(T.lo[i]), float(T.hi[i])] for i, p in enumerate(params)},
               periodic_parameters=params if case["pre"] == "periodic" else None,
               flow=flow, xp=xp, dtype="float64", **fkw)
    kw = {"n_samples": case["n"], "sampler": case["sampler"]}
    pre = case["pre"]
    if case["sampler"] != "importance":
        if pre == "none":
            kw["preconditioning"] = "none"
        elif pre == "flow":
            kw["preconditioning"] = "flow"
            kw["preconditioning_kwargs"] = {"fit_kwargs": {"n_epochs": 2, "batch_size": case["n"]}}
        else:
            kw["preconditioning"] = "default"
            pk = {"affine_transform": "affine" in pre, "bounded_to_unbounded": ("logit" in pre or "probit" in pre)}
            if "probit" in pre:
                pk["bounded_transform"] = "probit"
            kw["preconditioning_kwargs"] = pk
        kw["adaptive"] = case["adaptive"]
        if case["adaptive"]:
            kw["target_efficiency"] = case["target_eff"]
        else:
            kw["n_steps"] = case["n_steps"]
        if case["sampler"] == "smc":
            kw["rng"] = np.random.default_rng(seed)
            kw["sampler_kwargs"] = {"n_steps": case["kernel_steps"], "step_fn": "rw"}
        else:
            kw["sampler_kwargs"] = {"nsteps": case["kernel_steps"], "progress": False}
    elif pre == "default":
        kw["preconditioning"] = "default"
    minipcn.reset(); emcee.reset()
    minipcn.step_budget = 300
    np.random.seed(seed % 2**32)
    hist = None
    if case["sampler"] != "importance":
        kw["return_history"] = True
    try:
        s = a.sample_posterior(**kw)
        if isinstance(s, tuple):
            s, hist = s
    except ValueError as e:
        if "NaN values" in str(e):
            return None
        raise
    finally:
        minipcn.reset(); emcee.reset()
    x = env.to_np(s.x).astype(np.float64)
    lz = float(env.to_np(s.log_evidence))
    if case["sampler"] != "importance":
        outside = int(((x < T.lo) | (x > T.hi)).any(-1).sum())
    else:
        outside = 0
    if case["sampler"] == "importance":
        w = env.to_np(s.weights).astype(np.float64)
        w = w / w.sum()
        ess_min = float(1.0 / np.sum(w**2))
    else:
        w = np.full(len(x), 1.0 / len(x))
        ess_min = float(min(float(env.to_np(e)) for e in hist.ess)) if hist is not None and len(hist.ess) else float(len(x))
    if case["target"] == "circle":
        ang = x[:, 0]
        C, S = float(np.sum(w * np.cos(ang - T.m))), float(np.sum(w * np.sin(ang - T.m)))
        stats_ = [C, S]
    else:
        mean = (w[:, None] * x).sum(0)
        var = (w[:, None] * (x - mean) ** 2).sum(0)
        stats_ = list(mean) + list(var)
    return {"ratio": math.exp(lz - T.logZ), "stats": stats_, "c": c_in, "outside": outside, "ess_min": ess_min}


def _evaluate(case, T, R, seed0):
    g = np.random.default_rng(seed0)
    seeds = g.integers(0, 2**31 - 1, size=R)
    runs = [_one_run(case, T, int(s)) for s in seeds]
    ok = [r for r in runs if r is not None]
    if len(ok) < 0.75 * R:
        return None
    ratios = np.array([r["ratio"] for r in ok])
    st_ = np.array([r["stats"] for r in ok])
    # finite-sample bias of importance / SMC estimators scales with 1 / (smallest effective sample size met on the way)
    ess_eff = float(np.median([r["ess_min"] for r in ok]))
    n = max(min(case["n"], ess_eff), 1.0)
    Rk = len(ok)
    out = {"R": Rk, "dropped": R - Rk, "c": ok[0]["c"], "problems": [], "ess_eff": ess_eff}
    n_out = sum(r["outside"] for r in ok)
    if n_out:
        out["problems"].append(("samples-outside-prior-support", f"{n_out} of {Rk * n} returned posterior samples lie outside the prior's support "
                                                                 f"(zero posterior density)"))
    se = ratios.std(ddof=1) / math.sqrt(Rk)
    out["ratio"] = float(ratios.mean())
    out["ratio_se"] = float(se)
    out["ratio_tol"] = float(7 * se + 4.0 / n)
    if case["target"] == "circle":
        truth = np.array([T.R, 0.0])
        scale = np.array([1.0, 1.0])
    else:
        truth = np.concatenate([T.mean, T.var])
        scale = np.concatenate([np.sqrt(T.var), T.var])
    m = st_.mean(0)
    ses = st_.std(0, ddof=1) / math.sqrt(Rk)
    tol = 7 * ses + 4.0 * scale / n
    out["stat_dev_in_tol_units"] = float(np.max(np.abs(m - truth) / tol))
    for i in range(len(truth)):
        if abs(m[i] - truth[i]) > tol[i]:
            kind = ("resultant-cos" if i == 0 else "resultant-sin") if case["target"] == "circle" else ("mean" if i < case["d"] else "variance")
            out["problems"].append((f"posterior-{kind}", f"replicate-averaged posterior {kind} (component {i % max(case['d'], 1)}) is {m[i]:.5g}, "
                                    f"closed form {truth[i]:.5g} (tolerance {tol[i]:.3g}, R={Rk}, N={n})"))
    return out


def _known_smc_leak(case, details):
    """SMC with proposal mass c < 1 inside the prior support: evidence estimates Z / c (see DESIGN.md)"""
    if case.get("sampler") == "importance" or details.get("c", 1.0) >= 1.0 - 1e-9:
        return False
    inv_c = 1.0 / details["c"]
    return abs(details["ratio"] - inv_c) <= details["tol"] * inv_c + 1e-12


KNOWN_PREDICATES = {"smc_evidence_bias_when_proposal_leaks": _known_smc_leak}


def run_case(case, ctx):
    T = Target(case)
    R = 32 if ctx.tier == "quick" else 96
    labels = [case["target"], case["sampler"], "pre:" + case["pre"], case["ns"], "q:" + case["q"], f"d{case['d']}"]
    res = _evaluate(case, T, R, case["seed"])
    if res is None:
        return {"nontrivial": False, "labels": labels + ["skipped:too-many-NaN-rejections"]}
    if res["ess_eff"] < 12:
        # the particle system degenerates (e.g. uniform proposal in 4-D against a narrow likelihood with 3 fixed steps):
        # "up to Monte-Carlo error" has no usable meaning there
        return {"nontrivial": False, "labels": labels + ["skipped:degenerate-ESS<12"]}
    problems = list(res["problems"])
    leak_smc = case["sampler"] != "importance" and res["c"] < 1.0 - 1e-9
    ev_bad = abs(res["ratio"] - 1.0) > res["ratio_tol"]
    if problems or ev_bad:
        # confirm with 4R fresh replicates before reporting anything
        res2 = _evaluate(case, T, 4 * R, case["seed"] + 1)
        if res2 is None:
            return {"nontrivial": False, "labels": labels + ["skipped:too-many-NaN-rejections"]}
        ev_bad2 = abs(res2["ratio"] - 1.0) > res2["ratio_tol"]
        if ev_bad and ev_bad2:
            ctx.fail("evidence-expectation" if not leak_smc else "evidence-expectation:proposal-leaks-outside-prior",
                     f"replicate mean of Zhat/Z is {res2['ratio']:.4f} +- {res2['ratio_se']:.4f} (R={res2['R']}, N={case['n']}); "
                     f"tolerance {res2['ratio_tol']:.4f}; proposal mass inside the prior support c={res2['c']:.4f} (1/c={1 / res2['c']:.4f})",
                     case, ratio=res2["ratio"], se=res2["ratio_se"], tol=res2["ratio_tol"], c=res2["c"])
            labels.append("known-leak-bias")
        names1 = {p[0] for p in problems}
        for name, msg in res2["problems"]:
            if name in names1:
                ctx.fail(name, msg, case)
        res = res2
    ctx.extra["max_ratio_se"] = max(ctx.extra.get("max_ratio_se", 0.0), res["ratio_se"]) if False else 0
    labels.append("ratio-se:" + ("<1%" if res["ratio_se"] < 0.01 else "1-3%" if res["ratio_se"] < 0.03 else ">3%"))
    if res["dropped"]:
        labels.append("some-replicates-dropped")
    nontrivial = (case["sampler"] != "importance" or case["pre"] != "none") and case["q"] != "uniform" or case["sampler"] != "importance"
    return {"nontrivial": bool(nontrivial), "labels": labels}
