"""C13 - saved samples, histories, transforms, flows and configuration reload unchanged."""
from __future__ import annotations

import math
import os
import shutil
import tempfile

import numpy as np
from hypothesis import strategies as st

from .. import env

ID = "C13"
LEVEL = "exploration"
BUDGET = {"quick": 640, "thorough": 60000}
SHARDS = {"quick": 8, "thorough": 16}
RULE = (
    "case = one HDF5 save -> load round trip of: (samples) class x namespace x width x optional-field subset x flat/nested x "
    "unicode, unsorted parameter names x N in [1,50], d in [1,5]; (history) SMCHistory / FlowHistory with generated series "
    "(python floats, namespace scalars, per-dimension arrays) and 0-4 stored populations; (transform) every transform class, "
    "fitted and unfitted, generated bounds / options; (flow) ZukoFlow / FlowJax, default and non-default constructor options, "
    "trained 0-1 epochs, saved twice; (config) recursive dictionaries of None, {}, nested dicts, string lists, ints, floats, bools, numpy "
    "scalars and arrays; (aspire) Aspire.config_dict() of generated constructor arguments saved by sample_posterior and rebuilt "
    "by resume_from_file. Oracle = observational equality: values bitwise for same-width arrays, parameter order, namespace, "
    "dtype, None-vs-present, beta; series and populations; forward / inverse of transforms on a probe grid (bitwise); "
    "flow log_prob on a probe grid (1e-6); configuration equal by value. "
    "Non-trivial = weighted class OR non-NumPy namespace OR nested / None / empty entries OR a fitted transform / trained flow."
)
RULE += " " + ('Weighted sets make up about a third of the sample-set cases and the width of their evidence fields is compared; half of the default-dtype Zuko flows are written under torch.set_default_dtype(float64) and read back under float32.')
ASSUMPTIONS = [
    "dictionary keys and parameter names contain no '.' or '/' (the flattening scheme and HDF5 use them as separators)",
    "the sentinel strings '__none__' and '__empty_dict__' are not used as user values",
    "numeric lists reload as arrays and tuples as lists: compared by value",
    "FlowPreconditioningTransform.save raises NotImplementedError by contract (asserted, not a violation)",
    "FlowJax cases are 1 in 12 (JIT cost)",
]

NS = ["numpy", "torch", "jax"]
NAMES = ["a", "b", "m_1", "theta", "x_0", "Zeta", "α", "μ_c", "q", "phase"]


def _tmp():
    return tempfile.mkdtemp(prefix="c13-")


# ---- strategies --------------------------------------------------------------------------------
_scalar = st.one_of(
    st.none(), st.booleans(), st.integers(-10**6, 10**6), st.floats(allow_nan=False, width=64),
    st.sampled_from([float("inf"), -0.0, 1e-300, 0.1]),
    st.text(alphabet="abcXYZ_-αβ 09", min_size=0, max_size=6).filter(lambda s: s not in ("__none__", "__empty_dict__")),
)
_key = st.text(alphabet="abcdefgXYZ_-αβ09", min_size=1, max_size=6)


def _leaf():
    return st.one_of(
        _scalar,
        st.lists(st.text(alphabet="abcXYZ_αβ", min_size=1, max_size=5), min_size=0, max_size=4).map(lambda l: {"__strlist__": l}),
        st.lists(st.integers(-100, 100), min_size=1, max_size=4).map(lambda l: {"__intlist__": l}),
        st.lists(st.floats(-1e6, 1e6), min_size=1, max_size=4).map(lambda l: {"__floatlist__": l}),
        st.tuples(st.sampled_from(["np.float32", "np.float64", "np.int64", "np.bool_"]), st.floats(-100, 100)).map(lambda t: {"__npscalar__": list(t)}),
        st.tuples(st.sampled_from(["float32", "float64", "int64"]), st.lists(st.integers(-50, 50), min_size=1, max_size=6),
                  st.booleans()).map(lambda t: {"__nparray__": list(t)}),
        st.just({"__emptydict__": True}),
    )


_config = st.recursive(_leaf(), lambda ch: st.dictionaries(_key, ch, min_size=1, max_size=4), max_leaves=10)


@st.composite
def _case(draw):
    part = draw(st.sampled_from(["samples", "samples", "history", "transform", "transform", "config", "config", "flow", "aspire"]))
    seed = draw(st.integers(0, 2**31 - 1))
    if part == "samples":
        d = draw(st.integers(1, 5))
        return {"part": part, "cls": draw(st.sampled_from(["BaseSamples", "Samples", "Samples", "Samples", "SMCSamples"])),
                "ns": draw(st.sampled_from(NS)), "width": draw(st.sampled_from(["float32", "float64"])),
                "fields": draw(st.sampled_from([[], ["log_q"], ["log_likelihood", "log_prior"], ["log_likelihood", "log_prior", "log_q"],
                                               ["log_likelihood", "log_prior", "log_q"], ["log_likelihood", "log_prior", "log_q"]])),
                "flat": draw(st.booleans()), "n": draw(st.integers(1, 50)), "d": d,
                "params": draw(st.lists(st.sampled_from(NAMES), min_size=d, max_size=d, unique=True)),
                "beta": draw(st.sampled_from([None, 0.0, 0.5, 1.0])), "evidence": draw(st.sampled_from([None, -3.25])), "seed": seed}
    if part == "history":
        return {"part": part, "kind": draw(st.sampled_from(["smc", "smc", "flow"])), "n_it": draw(st.integers(0, 6)),
                "n_pops": draw(st.one_of(st.integers(0, 4), st.integers(0, 14))), "ns": draw(st.sampled_from(NS)), "width": draw(st.sampled_from(["float32", "float64"])),
                "scalar_kind": draw(st.sampled_from(["float", "xp", "np"])), "autocorr": draw(st.booleans()), "d": draw(st.integers(1, 3)), "seed": seed}
    if part == "transform":
        d = draw(st.integers(1, 4))
        lo = [draw(st.sampled_from([0.0, -1.0, -5.5, 2.0, 100.0, 0])) for _ in range(d)]
        return {"part": part, "cls": draw(st.sampled_from(["logit", "probit", "periodic", "affine", "identity", "composite", "composite", "flowtransform", "flowpre"])),
                "ns": draw(st.sampled_from(NS)), "width": draw(st.sampled_from(["float32", "float64", None])),
                "d": d, "lower": lo, "upper": [l + draw(st.sampled_from([1.0, 2.0, 6.283185307179586, 10, 0.05])) for l in lo],
                "kinds": draw(st.lists(st.sampled_from(["bounded", "periodic", "free"]), min_size=d, max_size=d)),
                "b2u": draw(st.booleans()), "bt": draw(st.sampled_from(["logit", "probit"])), "affine": draw(st.booleans()),
                "eps": draw(st.sampled_from([1e-6, 1e-4])), "fitted": draw(st.booleans()),
                "params": draw(st.lists(st.sampled_from(NAMES), min_size=d, max_size=d, unique=True)), "seed": seed}
    if part == "config":
        return {"part": part, "cfg": draw(st.dictionaries(_key, _config, min_size=1, max_size=5))}
    if part == "flow":
        backend = draw(st.sampled_from(["zuko"] * 11 + ["flowjax"]))
        d = draw(st.integers(1, 3))
        return {"part": part, "backend": backend, "d": d, "width": draw(st.sampled_from(["float32", "float64", None])),
                "options": draw(st.sampled_from(["default", "nondefault", "nondefault"])), "trained": draw(st.booleans()),
                "bounded": draw(st.sampled_from([None, "logit", "probit"])), "affine": draw(st.booleans()), "seed": seed % 10**6}
    d = draw(st.integers(1, 3))
    return {"part": "aspire", "d": d, "ns": draw(st.sampled_from(NS)), "width": draw(st.sampled_from([None, "float32", "float64"])),
            "named": draw(st.booleans()), "bounds": draw(st.sampled_from(["none", "finite", "mixed"])),
            "periodic": draw(st.booleans()), "b2u": draw(st.booleans()), "bt": draw(st.sampled_from(["logit", "probit"])),
            "eps": draw(st.sampled_from([1e-6, 1e-3])), "flow_kwargs": draw(st.sampled_from(["none", "hidden", "hidden+transforms"])),
            "sampler": draw(st.sampled_from(["importance", "smc"])), "seed": seed % 10**6}


def cases(tier):
    return _case()


# ---- helpers -----------------------------------------------------------------------------------

def _materialize(o):
    """JSON-able config description -> real python/numpy objects."""
    if isinstance(o, dict):
        if "__strlist__" in o:
            return list(o["__strlist__"])
        if "__intlist__" in o:
            return list(o["__intlist__"])
        if "__floatlist__" in o:
            return [float(v) for v in o["__floatlist__"]]
        if "__npscalar__" in o:
            t, v = o["__npscalar__"]
            return {"np.float32": np.float32, "np.float64": np.float64, "np.int64": np.int64, "np.bool_": np.bool_}[t](v)
        if "__nparray__" in o:
            t, v, two = o["__nparray__"]
            a = np.array(v, dtype=t)
            return a.reshape(1, -1) if two else a
        if "__emptydict__" in o:
            return {}
        return {k: _materialize(v) for k, v in o.items()}
    return o


def _same_value(a, b):
    """Equality by value between what was saved and what was loaded."""
    if a is None or b is None:
        return a is None and b is None
    if isinstance(a, dict):
        return isinstance(b, dict) and set(a) == set(b) and all(_same_value(a[k], b[k]) for k in a)
    if isinstance(a, str):
        return isinstance(b, str) and a == b
    if isinstance(a, (list, tuple)) and all(isinstance(v, str) for v in a):
        bb = b.tolist() if isinstance(b, np.ndarray) else b
        return isinstance(bb, (list, tuple)) and list(bb) == list(a)
    if isinstance(b, str) or isinstance(b, dict):
        return False
    try:
        aa = np.asarray(a)
        bb = np.asarray(b)
    except Exception:
        return False
    if aa.dtype.kind in "OUS" or bb.dtype.kind in "OUS":
        return False
    if aa.shape != bb.shape:
        return False
    if aa.dtype.kind == "b" or bb.dtype.kind == "b":
        return bool(np.array_equal(aa.astype(bool), bb.astype(bool))) and aa.dtype.kind == bb.dtype.kind
    return bool(np.array_equal(aa.astype(np.float64), bb.astype(np.float64), equal_nan=True))


def _arr_eq(a, b):
    a, b = env.to_np(a), env.to_np(b)
    return a.shape == b.shape and a.dtype == b.dtype and np.array_equal(a, b, equal_nan=True)


# ---- parts -------------------------------------------------------------------------------------

def _samples(case, ctx, h5, labels):
    import aspire.samples as S

    C = getattr(S, case["cls"])
    xp = env.xp_of(case["ns"])
    dt = env.native_dtype(case["ns"], case["width"])
    npdt = np.float32 if case["width"] == "float32" else np.float64
    g = np.random.default_rng(case["seed"])
    n, d = case["n"], case["d"]
    x = g.normal(size=(n, d)).astype(npdt)
    kw = {f: (5 * g.normal(size=n)).astype(npdt) for f in case["fields"]}
    if "log_likelihood" in kw and n > 2:
        kw["log_likelihood"][0] = -np.inf
    if case["cls"] == "SMCSamples":
        kw["beta"] = case["beta"]
    weighted = case["cls"] == "Samples" and len(case["fields"]) == 3
    if case["cls"] != "BaseSamples" and not weighted and case["evidence"] is not None:
        kw["log_evidence"] = case["evidence"]
        kw["log_evidence_error"] = 0.5
    s = C(x=x, parameters=list(case["params"]), xp=xp, dtype=dt, **kw)
    if weighted and n >= 4 and case["seed"] % 2:
        # a selection of a weighted set: the evidence it holds is its parent's, not that of its own rows
        s = s[0:n:2]
        labels.append("selection-of-weighted-set")
    s.save(h5, "obj", flat=case["flat"])
    r = C.load(h5, "obj")
    what = "samples:" + ("flat" if case["flat"] else "nested")
    if type(r) is not C:
        ctx.fail(f"{what}:class", f"loaded {type(r).__name__}", case)
    if list(r.parameters) != list(case["params"]):
        ctx.fail(f"{what}:parameters", f"parameter names/order {r.parameters!r} != {case['params']!r}", case)
    if r.xp.__name__ != xp.__name__:
        ctx.fail(f"{what}:namespace", f"namespace {r.xp.__name__} != {xp.__name__}", case)
    for f in ("x", "log_likelihood", "log_prior", "log_q"):
        a, b = getattr(s, f), getattr(r, f)
        if (a is None) != (b is None):
            ctx.fail(f"{what}:optional-field", f"{f} None-ness changed ({'None' if a is None else 'present'} -> {'None' if b is None else 'present'})", case, field=f)
        elif a is not None:
            if env.width_of(b) != case["width"]:
                ctx.fail(f"{what}:dtype", f"{f} reloaded as {b.dtype}, was {case['width']}", case, field=f)
            elif not _arr_eq(a, b):
                ctx.fail(f"{what}:values", f"{f} changed in the round trip", case, field=f)
    if case["cls"] == "SMCSamples" and r.beta != s.beta:
        ctx.fail(f"{what}:beta", f"beta {r.beta!r} != {s.beta!r}", case)
    if case["cls"] != "BaseSamples":
        for f in ("log_evidence", "log_evidence_error"):
            a, b = getattr(s, f), getattr(r, f)
            bad = (a is None) != (b is None)
            if not bad and a is not None:
                av, bv = float(env.to_np(a)), float(env.to_np(b))
                # for weighted sets the evidence is derived from the rows (recomputed by whichever namespace holds them)
                tol = 16 * float(np.finfo(npdt).eps) * (abs(av) + 1) if weighted else 0.0
                bad = not (av == bv or abs(av - bv) <= tol or (math.isnan(av) and math.isnan(bv)))
            if bad:
                ctx.fail(f"{what}:{f}", f"{f} {a!r} reloaded as {b!r}", case, field=f)
            elif a is not None and hasattr(a, "dtype") and hasattr(b, "dtype") and env.width_of(a) != env.width_of(b):
                ctx.fail(f"{what}:{f}-width", f"{f} was {a.dtype}, reloaded as {b.dtype}", case, field=f)
    labels += [case["cls"], case["ns"], case["width"]]
    return weighted or case["ns"] != "numpy" or any(ord(c) > 127 for p in case["params"] for c in p)


def _history(case, ctx, h5, labels):
    from aspire.history import FlowHistory, SMCHistory
    from aspire.samples import SMCSamples

    g = np.random.default_rng(case["seed"])
    xp = env.xp_of(case["ns"])
    dt = env.native_dtype(case["ns"], case["width"])

    def series(n):
        v = g.normal(size=n)
        if case["scalar_kind"] == "float":
            return [float(t) for t in v]
        if case["scalar_kind"] == "np":
            return [np.float64(t) for t in v]
        return [xp.asarray(float(t), dtype=dt) for t in v]

    n = case["n_it"]
    if case["kind"] == "flow":
        hist = FlowHistory(training_loss=[float(t) for t in g.normal(size=n)], validation_loss=[float(t) for t in g.normal(size=n)])
        hist.save(h5, "h")
        r = FlowHistory.load(h5, "h")
        names = ["training_loss", "validation_loss"]
    else:
        pops = []
        for t in range(case["n_pops"]):
            m = int(g.integers(1, 8))
            pops.append(SMCSamples(x=g.normal(size=(m, case["d"])), log_likelihood=g.normal(size=m), log_prior=g.normal(size=m),
                                   log_q=g.normal(size=m), beta=float(t) / max(case["n_pops"], 1), xp=xp, dtype=dt,
                                   parameters=[f"p{i}" for i in range(case["d"])]))
        hist = SMCHistory(log_norm_ratio=series(n), log_norm_ratio_var=series(n), beta=[float(t) for t in np.sort(g.random(n))],
                          ess=series(n), ess_target=series(n), eff_target=[float(t) for t in g.random(n)],
                          mcmc_acceptance=[float(t) for t in g.random(n)],
                          mcmc_autocorr=[np.ones(case["d"]) * (t + 1) for t in range(n)] if case["autocorr"] else [],
                          sample_history=pops)
        hist.save(h5, "h")
        r = SMCHistory.load(h5, "h")
        names = ["log_norm_ratio", "log_norm_ratio_var", "beta", "ess", "ess_target", "eff_target", "mcmc_acceptance", "mcmc_autocorr"]
        if len(r.sample_history) != len(pops):
            ctx.fail("history:population-count", f"{len(r.sample_history)} populations reloaded, {len(pops)} saved", case)
        else:
            for t, (a, b) in enumerate(zip(pops, r.sample_history)):
                for f in ("x", "log_likelihood", "log_prior", "log_q"):
                    if not _arr_eq(getattr(a, f), getattr(b, f)):
                        ctx.fail("history:population-values", f"population {t}: {f} changed (dtype {getattr(b, f).dtype})", case)
                if a.beta != b.beta or list(a.parameters) != list(b.parameters) or a.xp.__name__ != b.xp.__name__:
                    ctx.fail("history:population-meta", f"population {t}: beta/parameters/namespace changed ({b.beta!r}, {b.parameters!r}, {b.xp.__name__})", case)
    for nm in names:
        a = [np.asarray(env.to_np(v), dtype=np.float64) for v in getattr(hist, nm)]
        b = getattr(r, nm)
        bb = [np.asarray(env.to_np(v), dtype=np.float64) for v in (b.tolist() if isinstance(b, np.ndarray) and b.ndim == 1 else list(b))] if len(a) else list(np.asarray(b).reshape(-1))
        if len(a) != len(bb) or any(x_.shape != y_.shape or not np.array_equal(x_, y_, equal_nan=True) for x_, y_ in zip(a, bb)):
            ctx.fail("history:series", f"series {nm} changed: saved {len(a)} entries, reloaded {b!r}"[:300], case, series=nm)
    labels += ["history:" + case["kind"], case["scalar_kind"]]
    return case["n_pops"] > 0 or n == 0 or case["scalar_kind"] == "xp"


def _make_transform(case):
    from aspire import transforms as T

    xp = env.xp_of(case["ns"])
    dt = env.native_dtype(case["ns"], case["width"]) if case["width"] else None
    lo, hi, d = case["lower"], case["upper"], case["d"]
    c = case["cls"]
    if c == "logit":
        return T.LogitTransform(lower=lo, upper=hi, xp=xp, eps=case["eps"], dtype=dt)
    if c == "probit":
        return T.ProbitTransform(lower=lo, upper=hi, xp=xp, eps=case["eps"], dtype=dt)
    if c == "periodic":
        return T.PeriodicTransform(lower=lo, upper=hi, xp=xp, dtype=dt)
    if c == "affine":
        return T.AffineTransform(xp=xp, dtype=dt)
    if c == "identity":
        return T.IdentityTransform(xp=xp, dtype=dt)
    params = list(case["params"])
    kinds = case["kinds"]
    bounds = {p: ([-np.inf, np.inf] if kinds[i] == "free" else [lo[i], hi[i]]) for i, p in enumerate(params)}
    kw = dict(parameters=params, prior_bounds=bounds, bounded_to_unbounded=case["b2u"], bounded_transform=case["bt"],
              affine_transform=case["affine"], xp=xp, eps=case["eps"], dtype=dt)
    if c == "flowtransform":
        return T.FlowTransform(**kw)
    if c == "flowpre":
        return T.FlowPreconditioningTransform(periodic_parameters=[p for i, p in enumerate(params) if kinds[i] == "periodic"],
                                              flow_backend="zuko", **kw)
    return T.CompositeTransform(periodic_parameters=[p for i, p in enumerate(params) if kinds[i] == "periodic"], **kw)


def _transform(case, ctx, h5, labels):
    from aspire.transforms import BaseTransform

    labels += ["transform:" + case["cls"], case["ns"], str(case["width"]), "fitted" if case["fitted"] else "unfitted"]
    t = _make_transform(case)
    if case["cls"] == "flowpre":
        try:
            t.save(h5, "t")
        except NotImplementedError:
            return False
        ctx.fail("transform:flowpre-save", "FlowPreconditioningTransform.save did not raise NotImplementedError", case)
        return False
    xp = t.xp
    w = case["width"] or ("float32" if case["ns"] == "torch" else "float64")
    dt = env.native_dtype(case["ns"], w)
    g = np.random.default_rng(case["seed"])
    lo, hi = np.array(case["lower"], dtype=float), np.array(case["upper"], dtype=float)
    u = g.uniform(0.02, 0.98, size=(9, case["d"]))
    u[0] = 0.3 * case["eps"]  # inside the clipping margin: the result depends on the stored eps
    u[1] = 1 - 0.3 * case["eps"]
    x = lo + (hi - lo) * u
    if case["cls"] in ("composite", "flowtransform"):
        for i, k in enumerate(case["kinds"]):
            if k == "free" or (case["cls"] == "flowtransform" and k == "periodic"):
                x[:, i] = g.normal(size=9) * 3
    xa = xp.asarray(x, dtype=dt)
    needs_fit = case["cls"] == "affine" or (case["cls"] in ("composite", "flowtransform") and case["affine"])
    if case["fitted"]:
        t.fit(xa)
    t.save(h5, "t")
    r = BaseTransform.load(h5, "t")
    if type(r) is not type(t):
        ctx.fail("transform:class", f"loaded {type(r).__name__}, saved {type(t).__name__}", case)
        return False
    if r.xp.__name__ != t.xp.__name__:
        ctx.fail("transform:namespace", f"namespace {r.xp.__name__} != {t.xp.__name__}", case)
    if str(r.dtype) != str(t.dtype):
        ctx.fail("transform:dtype", f"dtype {r.dtype!r} != {t.dtype!r}", case)
    if needs_fit and not case["fitted"]:
        return False  # nothing to evaluate before fitting; the reload itself is the check
    y0, lj0 = t.forward(xa)
    y1, lj1 = r.forward(xa)
    if not (_arr_eq(y0, y1) and _arr_eq(lj0, lj1)):
        ctx.fail("transform:forward", "forward map differs after reload", case)
    z0, li0 = t.inverse(y0)
    z1, li1 = r.inverse(y0)
    if not (_arr_eq(z0, z1) and _arr_eq(li0, li1)):
        ctx.fail("transform:inverse", "inverse map differs after reload", case)
    return bool(case["fitted"] and needs_fit) or case["ns"] != "numpy"


def _config_part(case, ctx, h5, labels):
    from aspire.utils import load_from_h5_file, recursively_save_to_h5_file

    cfg = _materialize(case["cfg"])
    recursively_save_to_h5_file(h5, "cfg", cfg)
    back = load_from_h5_file(h5, "cfg")

    def walk(a, b, path):
        if isinstance(a, dict) and a:
            if not isinstance(b, dict) or set(a) != set(b):
                ctx.fail("config:keys", f"at {path or '/'}: keys {sorted(b) if isinstance(b, dict) else b!r} != {sorted(a)}", case)
                return
            for k in a:
                walk(a[k], b[k], f"{path}/{k}")
        elif not _same_value(a, b):
            ctx.fail("config:value", f"at {path}: saved {a!r} ({type(a).__name__}) reloaded {b!r} ({type(b).__name__})", case, saved=repr(a), loaded=repr(b))

    walk(cfg, back, "")
    flat = repr(case["cfg"])
    labels.append("config")
    return "None" in flat or "__emptydict__" in flat or flat.count("{") > 3


def _flow(case, ctx, h5, labels):
    from aspire.flows import get_flow_wrapper
    from aspire.transforms import FlowTransform

    backend = case["backend"]
    Flow, fxp = get_flow_wrapper(backend)
    d = case["d"]
    g = np.random.default_rng(case["seed"])
    data = g.uniform(0.1, 0.9, size=(40, d))
    params = [f"p{i}" for i in range(d)]
    bounds = {p: [0.0, 1.0] for p in params} if case["bounded"] else None
    dtf = FlowTransform(parameters=params, prior_bounds=bounds, bounded_to_unbounded=bool(case["bounded"]),
                        bounded_transform=case["bounded"] or "logit", affine_transform=case["affine"], xp=fxp, dtype=case["width"])
    kw = {}
    if backend == "zuko":
        kw["seed"] = case["seed"]
        if case["options"] == "nondefault":
            kw.update(hidden_features=[8, 8], transforms=2)
    else:
        import jax

        env.jax()
        kw["key"] = jax.random.key(case["seed"])
        if case["options"] == "nondefault":
            kw.update(flow_layers=1, nn_width=8)
    # a torch flow built without a dtype takes the process-wide default in force at that moment; the writing process may run with
    # torch.set_default_dtype(float64) while the reading one does not
    wide_default = backend == "zuko" and case["width"] is None and case["seed"] % 2 == 1
    if wide_default:
        import torch

        torch.set_default_dtype(torch.float64)
        labels.append("torch-default-float64-when-written")
    try:
        f = Flow(dims=d, data_transform=dtf, dtype=case["width"], **kw)
        labels += ["flow:" + backend, "opts:" + case["options"], "trained" if case["trained"] else "untrained", str(case["width"])]
        if case["trained"]:
            f.fit(data, **({"n_epochs": 1, "batch_size": 40} if backend == "zuko" else {"max_epochs": 1, "batch_size": 40, "show_progress": False}))
        f.save(h5, "flow")
    finally:
        if wide_default:
            torch.set_default_dtype(torch.float32)
    r = Flow.load(h5, "flow")
    # the same object saved again (e.g. checkpoint file, then results file) must give an equally complete copy
    f.save(h5, "flow_again")
    r_again = Flow.load(h5, "flow_again")
    if not case["trained"] and case["affine"]:
        if type(r_again.data_transform) is not type(f.data_transform):
            ctx.fail("flow:second-save", "a second save of the same flow object lost its data transform", case)
        return False  # an unfitted affine part cannot be evaluated; saving and reloading must simply work
    if not case["trained"]:
        f.fit_data_transform(fxp.asarray(data, dtype=f.dtype)) if False else None
    probe = g.uniform(0.15, 0.85, size=(7, d))
    a = env.to_np(f.log_prob(probe)).astype(np.float64)
    b = env.to_np(r.log_prob(probe)).astype(np.float64)
    if a.shape != b.shape or not np.allclose(a, b, rtol=1e-6, atol=1e-6, equal_nan=True):
        ctx.fail("flow:log_prob", f"log_prob differs after reload: {a[:3]!r} vs {b[:3]!r}", case)
    if str(r.dtype) != str(f.dtype):
        ctx.fail("flow:dtype", f"dtype {r.dtype!r} != {f.dtype!r}", case)
    c = env.to_np(r_again.log_prob(probe)).astype(np.float64)
    if type(r_again.data_transform) is not type(f.data_transform) or a.shape != c.shape or not np.allclose(a, c, rtol=1e-6, atol=1e-6, equal_nan=True):
        ctx.fail("flow:second-save", f"a second save of the same flow object reloads differently (data transform "
                                     f"{type(r_again.data_transform).__name__}, log_prob {c[:3]!r} vs {a[:3]!r})", case)
    return True


def _aspire(case, ctx, path, labels):
    import minipcn
    from aspire import Aspire
    from aspire.samples import Samples

    d = case["d"]
    xp = env.xp_of(case["ns"])
    params = [f"q{i}" for i in range(d)][::-1] if case["named"] else None
    names = params or [f"x_{i}" for i in range(d)]
    bounds = None
    if case["bounds"] != "none":
        bounds = {p: ([-2.0, 3.0] if (case["bounds"] == "finite" or i % 2 == 0) else [-np.inf, np.inf]) for i, p in enumerate(names)}
    periodic = [names[0]] if (case["periodic"] and bounds is not None) else None
    fk = {}
    if case["flow_kwargs"] != "none":
        fk["hidden_features"] = [8, 8]
    if case["flow_kwargs"] == "hidden+transforms":
        fk["transforms"] = 2

    def log_likelihood(s):
        return -0.5 * xp.sum(s.x**2, axis=-1)

    def log_prior(s):
        return xp.zeros(s.x.shape[0], dtype=s.x.dtype)

    a = Aspire(log_likelihood=log_likelihood, log_prior=log_prior, dims=d, parameters=params, prior_bounds=bounds,
               periodic_parameters=periodic, bounded_to_unbounded=case["b2u"], bounded_transform=case["bt"], eps=case["eps"],
               xp=xp, dtype=case["width"], flow_backend="zuko", seed=case["seed"], **fk)
    g = np.random.default_rng(case["seed"])
    a.fit(Samples(g.uniform(-1, 2, size=(40, d)), xp=xp, parameters=params, dtype=case["width"]), n_epochs=1, batch_size=40)
    minipcn.reset()
    kw = dict(n_samples=8, sampler=case["sampler"], checkpoint_path=path)
    if case["sampler"] == "smc":
        kw.update(rng=np.random.default_rng(case["seed"]), adaptive=False, n_steps=1, sampler_kwargs={"n_steps": 1, "step_fn": "rw"})
    a.sample_posterior(**kw)
    r = Aspire.resume_from_file(path, log_likelihood=log_likelihood, log_prior=log_prior)
    labels += ["aspire", case["ns"], str(case["width"]), "fk:" + case["flow_kwargs"]]

    def eq(name, x, y):
        if not _same_value(x, y) and not (isinstance(x, (list, tuple)) and isinstance(y, (list, tuple)) and list(x) == list(y)):
            ctx.fail(f"aspire:{name}", f"setting {name}: rebuilt instance has {y!r}, the instance that wrote the file had {x!r}", case, setting=name)

    eq("dims", a.dims, r.dims)
    eq("parameters", a.parameters, r.parameters)
    eq("periodic_parameters", a.periodic_parameters, r.periodic_parameters)
    if (a.prior_bounds is None) != (r.prior_bounds is None):
        ctx.fail("aspire:prior_bounds", f"prior_bounds {r.prior_bounds!r} vs {a.prior_bounds!r}", case, setting="prior_bounds")
    elif a.prior_bounds is not None:
        if list(a.prior_bounds) != list(r.prior_bounds) and set(a.prior_bounds) != set(r.prior_bounds):
            ctx.fail("aspire:prior_bounds", f"prior_bounds keys {list(r.prior_bounds)} vs {list(a.prior_bounds)}", case, setting="prior_bounds")
        else:
            for k in a.prior_bounds:
                eq("prior_bounds", a.prior_bounds[k], r.prior_bounds[k])
    eq("bounded_to_unbounded", a.bounded_to_unbounded, r.bounded_to_unbounded)
    eq("bounded_transform", a.bounded_transform, r.bounded_transform)
    eq("eps", a.eps, r.eps)
    eq("flow_backend", a.flow_backend, r.flow_backend)
    eq("flow_matching", a.flow_matching, r.flow_matching)
    if (r.xp.__name__ if r.xp else None) != xp.__name__:
        ctx.fail("aspire:xp", f"namespace {r.xp!r} vs {xp.__name__}", case, setting="xp")
    want = {k: v for k, v in a.flow_kwargs.items() if k != "parameters"}
    got = {k: v for k, v in r.flow_kwargs.items() if k != "parameters"}
    if not _same_value(want, got):
        ctx.fail("aspire:flow_kwargs", f"flow options: rebuilt {r.flow_kwargs!r}, original {a.flow_kwargs!r}", case, setting="flow_kwargs")
    wa = None if a.dtype is None else str(a.dtype).split(".")[-1]
    wr = None if r.dtype is None else str(r.dtype).split(".")[-1]
    if wa != wr:
        ctx.fail("aspire:dtype", f"precision: rebuilt instance has dtype={r.dtype!r}, original {a.dtype!r}", case, setting="dtype")
    # the reloaded proposal is the same density
    probe = g.uniform(-0.5, 1.5, size=(5, d))
    p0 = env.to_np(a.flow.log_prob(probe)).astype(np.float64)
    p1 = env.to_np(r.flow.log_prob(probe)).astype(np.float64)
    if not np.allclose(p0, p1, rtol=1e-5, atol=1e-5, equal_nan=True):
        ctx.fail("aspire:flow", f"reloaded proposal density differs: {p0[:3]!r} vs {p1[:3]!r}", case, setting="flow")
    return True


def run_case(case, ctx):
    from aspire.utils import AspireFile

    d = _tmp()
    labels = []
    try:
        path = os.path.join(d, "f.h5")
        if case["part"] == "aspire":
            nt = _aspire(case, ctx, path, labels)
        else:
            with AspireFile(path, "w") as h5:
                nt = {"samples": _samples, "history": _history, "transform": _transform, "config": _config_part, "flow": _flow}[case["part"]](case, ctx, h5, labels)
        return {"nontrivial": bool(nt), "labels": labels or [case["part"]]}
    finally:
        shutil.rmtree(d, ignore_errors=True)
