"""C16 - slicing, concatenating, pickling and dict-converting samples keep rows aligned."""
from __future__ import annotations

import pickle

import numpy as np
from hypothesis import strategies as st
from hypothesis.stateful import precondition, rule

from .. import env
from ..runner import ops_machine_base, replay_ops

ID = "C16"
LEVEL = "exploration"
BUDGET = {"quick": 480, "thorough": 60000}
SHARDS = {"quick": 8, "thorough": 16}
STEP_COUNT = {"quick": 12, "thorough": 16}
RULE = (
    "history = sequence (<=12..16 steps, Hypothesis RuleBasedStateMachine) of create / select / partition+concatenate / "
    "pickle round trip / to_dict(flat|nested)->from_dict on a pool of (real sample set, plain-array reference model) pairs; "
    "class in {BaseSamples, Samples, SMCSamples} x namespace x width x optional-field subset; selections: int, negative int, "
    "slice with step, boolean mask, integer array with repeats, full-length permutation / bootstrap index / reversal, empty selection. After every operation every per-sample field "
    "of the real object (x, log L, log pi, log q, and log_w / weights for weighted sets) must equal the same selection of the "
    "model bitwise, with parameters / namespace / width unchanged, carried log_evidence / log_evidence_error (not recomputed) "
    "and beta for SMCSamples. Non-trivial = a history with a non-contiguous selection followed by >=1 further operation."
)
RULE += " " + ('Masks and index arrays are also passed as plain Python lists (NumPy, torch).')
RULE += " " + ("Parameter names include 'weights', 'log_w', 'evidence'; operation join_other concatenates a set with a copy that lacks one optional field (every present per-sample field of the result must have one value per row).")
ASSUMPTIONS = [
    "the reference model is a dict of NumPy arrays (same float width) built by the harness, never by aspire",
    "weights of a freshly built weighted set are read once from the real object (exp is not bitwise portable); every later "
    "selection must reproduce exactly that array's selection",
]

CLASSES = ["BaseSamples", "Samples", "Samples", "SMCSamples"]


def _cls(name):
    import aspire.samples as S

    return getattr(S, name)


def new_state():
    return {"pairs": [], "noncontig_at": None, "n_ops": 0, "labels": set()}


def cleanup(state):
    state["pairs"].clear()


def finish(state):
    nt = state["noncontig_at"] is not None and state["n_ops"] > state["noncontig_at"]
    return {"nontrivial": bool(nt), "labels": sorted(state["labels"])}


# ---- model -------------------------------------------------------------------------------------

def _np_dtype(width):
    return np.float32 if width == "float32" else np.float64


def _build(spec):
    """(real, model) from a JSON-able spec."""
    C = _cls(spec["cls"])
    xp = env.xp_of(spec["ns"])
    dt = env.native_dtype(spec["ns"], spec["width"])
    npdt = _np_dtype(spec["width"])
    n, d = spec["n"], spec["d"]
    g = np.random.default_rng(spec["seed"])
    x = g.normal(size=(n, d)).astype(npdt)
    x[:, 0] = np.arange(n)
    fields = {}
    for i, f in enumerate(("log_likelihood", "log_prior", "log_q")):
        if f in spec["fields"]:
            v = (10.0 * g.normal(size=n)).astype(npdt)
            if spec.get("neginf") and f == "log_likelihood" and n > 1:
                v[:: max(2, n // 3)] = -np.inf
            fields[f] = v
    kw = dict(x=x.copy(), parameters=list(spec["params"]), xp=xp, dtype=dt, **{k: v.copy() for k, v in fields.items()})
    model = {"cls": spec["cls"], "ns": spec["ns"], "width": spec["width"], "params": list(spec["params"]), "x": x,
             "beta": None, "log_evidence": None, "log_evidence_error": None, **{f: fields.get(f) for f in ("log_likelihood", "log_prior", "log_q")}}
    if spec["cls"] == "SMCSamples":
        kw["beta"] = spec["beta"]
        model["beta"] = spec["beta"]
    weighted = spec["cls"] == "Samples" and len(fields) == 3
    if spec["cls"] in ("Samples", "SMCSamples") and not weighted and spec.get("evidence") is not None:
        kw["log_evidence"] = spec["evidence"]
        kw["log_evidence_error"] = 0.25
        model["log_evidence"] = spec["evidence"]
        model["log_evidence_error"] = 0.25
    real = C(**kw)
    if weighted:
        model["log_w"] = (fields["log_likelihood"] + fields["log_prior"]) - fields["log_q"]
        model["weights"] = env.to_np(real.weights).copy()
        model["log_evidence"] = env.to_np(real.log_evidence).copy()
        model["log_evidence_error"] = env.to_np(real.log_evidence_error).copy()
    return real, model


def _index(spec, n):
    k = spec["kind"]
    if k == "int":
        return spec["i"] % n
    if k == "negint":
        return -1 - (spec["i"] % n)
    if k == "slice":
        a, b, s = spec["a"], spec["b"], spec["s"]
        return slice(a, b, s)
    if k == "mask":
        g = np.random.default_rng(spec["seed"])
        m = g.random(n) < spec["p"]
        if not m.any() and not spec.get("allow_empty"):
            m[spec["seed"] % n] = True
        return m
    if k == "array":
        g = np.random.default_rng(spec["seed"])
        return g.integers(0, n, size=spec["m"])
    if k == "perm":  # every row exactly once, in another order: the selection has the parent's length
        return np.random.default_rng(spec["seed"]).permutation(n)
    if k == "boot":  # as many rows as the parent, with repeats
        return np.random.default_rng(spec["seed"]).integers(0, n, size=n)
    if k == "empty":
        return slice(0, 0)
    raise ValueError(k)


def _select_model(model, idx):
    out = dict(model)
    for f in ("x", "log_likelihood", "log_prior", "log_q", "log_w", "weights"):
        if model.get(f) is not None:
            out[f] = model[f][idx]
    return out


def _eq(a, b):
    a = np.asarray(a)
    b = np.asarray(b)
    return a.shape == b.shape and a.dtype == b.dtype and np.array_equal(a, b, equal_nan=True)


def _agree(real, model, ctx, case, what, weights_exact=True):
    C = _cls(model["cls"])
    if type(real) is not C:
        ctx.fail(f"{what}:class", f"result is {type(real).__name__}, expected {model['cls']}", case)
        return
    xr = env.to_np(real.x)
    if not _eq(xr, model["x"]):
        ctx.fail(f"{what}:x", f"x differs from the model (shape {xr.shape} dtype {xr.dtype} vs {model['x'].shape} {model['x'].dtype})", case)
    for f in ("log_likelihood", "log_prior", "log_q"):
        rv = getattr(real, f)
        mv = model[f]
        if (rv is None) != (mv is None):
            ctx.fail(f"{what}:{f}", f"{f} is {'missing' if rv is None else 'present'} but the model has it {'missing' if mv is None else 'present'}", case)
        elif rv is not None and not _eq(env.to_np(rv), mv):
            ctx.fail(f"{what}:{f}", f"{f} is not the same selection as x (got {env.to_np(rv).reshape(-1)[:6]!r}, model {np.asarray(mv).reshape(-1)[:6]!r})", case)
    if list(real.parameters) != model["params"]:
        ctx.fail(f"{what}:parameters", f"parameters {real.parameters!r} != {model['params']!r}", case)
    if env.xp_of(model["ns"]).__name__ != real.xp.__name__ or type(real.x).__module__.split(".")[0] not in (model["ns"], "jaxlib", "jax"):
        ctx.fail(f"{what}:namespace", f"namespace is {real.xp.__name__}/{type(real.x).__name__}, expected {model['ns']}", case)
    if env.width_of(real.x) != model["width"]:
        ctx.fail(f"{what}:width", f"x is {real.x.dtype}, expected {model['width']}", case)
    if model["cls"] == "SMCSamples" and real.beta != model["beta"]:
        ctx.fail(f"{what}:beta", f"beta {real.beta!r} != {model['beta']!r}", case)
    if model.get("log_w") is not None:
        if real.log_w is None or not _eq(env.to_np(real.log_w), model["log_w"]):
            ctx.fail(f"{what}:log_w", "log_w is not the same selection of the parent's log_w", case)
        if real.weights is None:
            ctx.fail(f"{what}:weights", "weights missing", case)
        else:
            w = env.to_np(real.weights)
            if weights_exact and not _eq(w, model["weights"]):
                ctx.fail(f"{what}:weights", "weights are not the same selection of the parent's weights", case)
            elif not weights_exact and (w.shape != model["weights"].shape or not np.allclose(w, model["weights"], rtol=1e-5, atol=0, equal_nan=True)):
                ctx.fail(f"{what}:weights", "weights differ from exp(log_w) of the same rows", case)
    if model["cls"] in ("Samples", "SMCSamples") and model.get("carry", True):
        for f in ("log_evidence", "log_evidence_error"):
            mv = model[f]
            rv = getattr(real, f)
            if (mv is None) != (rv is None):
                ctx.fail(f"{what}:{f}", f"{f} is {rv!r}, model carries {mv!r}", case)
            elif mv is not None and not np.array_equal(np.asarray(env.to_np(rv), dtype=np.float64), np.asarray(mv, dtype=np.float64), equal_nan=True):
                ctx.fail(f"{what}:{f}", f"{f} = {env.to_np(rv)!r} but the value attached to the parent was {mv!r} (carried, not recomputed)", case)


# ---- operations --------------------------------------------------------------------------------

def apply(state, op, ctx, case):
    state["n_ops"] += 1
    kind = op["op"]
    pairs = state["pairs"]
    state["labels"].add(kind)
    if kind == "create":
        real, model = _build(op["spec"])
        state["labels"].update([op["spec"]["cls"], op["spec"]["ns"], op["spec"]["width"]])
        _agree(real, model, ctx, case, "create")
        pairs.append((real, model))
        return
    if not pairs:
        return
    real, model = pairs[op["i"] % len(pairs)]
    n = len(model["x"]) if model["x"].ndim == 2 else 0
    if kind == "select":
        if n == 0:
            return
        idx = _index(op["idx"], n)
        if model["ns"] == "torch" and isinstance(idx, slice) and idx.step is not None and idx.step < 0:
            state["labels"].add("negative-step-on-torch(skipped: unsupported by torch itself)")
            return
        state["labels"].add("idx:" + op["idx"]["kind"])
        weighted = model.get("log_w") is not None
        if weighted and (op["idx"]["kind"] == "empty" or (isinstance(idx, np.ndarray) and idx.dtype == bool and not idx.any())
                         or (isinstance(idx, slice) and len(range(*idx.indices(n))) == 0)):
            state["labels"].add("empty-weighted(skipped)")
            return
        ridx = idx
        if op["idx"].get("as_list") and isinstance(idx, np.ndarray) and model["ns"] != "jax":
            ridx = idx.tolist()  # a plain Python list of bools / ints (JAX itself rejects list indices)
            state["labels"].add("idx-as-list")
        sel = real[ridx]
        msel = _select_model(model, idx)
        _agree(sel, msel, ctx, case, "select")
        if op["idx"]["kind"] in ("mask", "array", "perm", "boot") or (op["idx"]["kind"] == "slice" and op["idx"]["s"] not in (None, 1)):
            if state["noncontig_at"] is None:
                state["noncontig_at"] = state["n_ops"]
        if msel["x"].ndim == 2:
            pairs.append((sel, msel))
        return
    if kind == "partition":
        if n < 2:
            return
        cuts = sorted(set(c % n for c in op["cuts"]) - {0})
        bounds = [0] + cuts + [n]
        pieces = [real[slice(a, b)] for a, b in zip(bounds[:-1], bounds[1:]) if b > a and not (model.get("log_w") is not None and b - a == 0)]
        joined = type(real).concatenate(pieces)
        m2 = dict(model)
        m2["carry"] = False  # evidence of a concatenation is not part of the property
        if model["cls"] == "SMCSamples":
            m2["beta"] = joined.beta  # concatenate is defined on the base class; beta is not a per-sample field
        _agree(joined, m2, ctx, case, "concatenate", weights_exact=False)
        return
    if kind == "join_other":
        # the set is joined with another set of the same class / namespace / parameters that lacks one of its optional fields
        present = [f for f in ("log_likelihood", "log_prior", "log_q") if model[f] is not None]
        if n < 1 or not present:
            return
        drop = present[op["drop"] % len(present)]
        C = type(real)
        kw = {f: env.to_np(getattr(real, f))[::-1].copy() for f in present if f != drop}
        if model["cls"] == "SMCSamples":
            kw["beta"] = real.beta
        other = C(x=env.to_np(real.x)[::-1].copy(), parameters=list(model["params"]), xp=real.xp, dtype=real.dtype, **kw)
        joined = C.concatenate([real, other])
        if len(joined.x) != 2 * n:
            ctx.fail("join:size", f"joined set has {len(joined.x)} rows for {n}+{n}", case)
        for f in ("log_likelihood", "log_prior", "log_q"):
            v = getattr(joined, f)
            if v is None:
                continue
            # whatever the rule for a field that one piece lacks: a per-sample field that is present has one value per row
            if len(v) != len(joined.x):
                ctx.fail("join:field-length", f"{f} of the joined set has {len(v)} values for {len(joined.x)} rows "
                                              f"(one of the pieces had no {drop})", case, field=f)
            elif f != drop:
                want = np.concatenate([model[f], model[f][::-1]])
                if not _eq(env.to_np(v), want):
                    ctx.fail(f"join:{f}", f"{f} of the joined set is not the concatenation of the pieces' {f}", case, field=f)
        return
    if kind == "pickle":
        clone = pickle.loads(pickle.dumps(real))
        _agree(clone, model, ctx, case, "pickle")
        pairs.append((clone, model))
        return
    if kind == "dict":
        d = real.to_dict(flat=op["flat"])
        clone = type(real).from_dict(d)
        m2 = dict(model)
        _agree(clone, m2, ctx, case, "dict:" + ("flat" if op["flat"] else "nested"), weights_exact=False)
        # from_dict recomputes the weights as exp(log_w) (agreement just checked to 1e-5): later exact comparisons of this object
        # refer to the weights it actually holds
        if m2.get("weights") is not None and getattr(clone, "weights", None) is not None:
            m2["weights"] = env.to_np(clone.weights)
        pairs.append((clone, m2))
        return
    raise ValueError(kind)


def run_case(case, ctx):
    return replay_ops(__import__(__name__, fromlist=["x"]), case, ctx)


# ---- generators --------------------------------------------------------------------------------

_names = st.lists(st.sampled_from(["a", "b", "m_1", "theta", "x_0", "Zeta", "α", "q", "weights", "log_w", "evidence"]), min_size=5, max_size=5, unique=True)


@st.composite
def _spec(draw):
    cls = draw(st.sampled_from(CLASSES))
    d = draw(st.integers(1, 4))
    fields = draw(st.sampled_from([[], ["log_likelihood"], ["log_q"], ["log_likelihood", "log_prior"],
                                   ["log_likelihood", "log_prior", "log_q"], ["log_likelihood", "log_prior", "log_q"]]))
    if cls == "SMCSamples" and draw(st.booleans()):
        fields = ["log_likelihood", "log_prior", "log_q"]
    return {"cls": cls, "ns": draw(st.sampled_from(["numpy", "torch", "jax"])), "width": draw(st.sampled_from(["float32", "float64"])),
            "n": draw(st.integers(1, 24)), "d": d, "fields": fields, "params": draw(_names)[:d],
            "seed": draw(st.integers(0, 2**31 - 1)), "beta": draw(st.sampled_from([0.0, 0.25, 1.0])),
            "neginf": draw(st.booleans()), "evidence": draw(st.sampled_from([None, -3.5, 12.0]))}


_idx = st.one_of(
    st.fixed_dictionaries({"kind": st.just("int"), "i": st.integers(0, 100)}),
    st.fixed_dictionaries({"kind": st.just("negint"), "i": st.integers(0, 100)}),
    st.fixed_dictionaries({"kind": st.just("slice"), "a": st.one_of(st.none(), st.integers(-5, 20)),
                           "b": st.one_of(st.none(), st.integers(-5, 30)), "s": st.sampled_from([None, 1, 2, 3, -1, -2])}),
    st.fixed_dictionaries({"kind": st.just("mask"), "seed": st.integers(0, 2**31 - 1), "p": st.sampled_from([0.2, 0.5, 0.9]),
                           "allow_empty": st.booleans(), "as_list": st.booleans()}),
    st.fixed_dictionaries({"kind": st.just("array"), "seed": st.integers(0, 2**31 - 1), "m": st.integers(1, 30), "as_list": st.booleans()}),
    st.fixed_dictionaries({"kind": st.sampled_from(["perm", "boot"]), "seed": st.integers(0, 2**31 - 1), "as_list": st.booleans()}),
    st.fixed_dictionaries({"kind": st.just("slice"), "a": st.none(), "b": st.none(), "s": st.just(-1)}),
    st.fixed_dictionaries({"kind": st.just("empty")}),
)


def machine(tier, ctx, last):
    import sys

    Base = ops_machine_base(sys.modules[__name__], ctx, last)

    class SampleSetMachine(Base):
        @rule(spec=_spec())
        def create(self, spec):
            self.do({"op": "create", "spec": spec})

        @precondition(lambda self: self.state["pairs"])
        @rule(i=st.integers(0, 1000), idx=_idx)
        def select(self, i, idx):
            self.do({"op": "select", "i": i, "idx": idx})

        @precondition(lambda self: self.state["pairs"])
        @rule(i=st.integers(0, 1000), drop=st.integers(0, 2))
        def join_other(self, i, drop):
            self.do({"op": "join_other", "i": i, "drop": drop})

        @precondition(lambda self: self.state["pairs"])
        @rule(i=st.integers(0, 1000), cuts=st.lists(st.integers(0, 1000), min_size=1, max_size=4))
        def partition(self, i, cuts):
            self.do({"op": "partition", "i": i, "cuts": cuts})

        @precondition(lambda self: self.state["pairs"])
        @rule(i=st.integers(0, 1000))
        def pickle_roundtrip(self, i):
            self.do({"op": "pickle", "i": i})

        @precondition(lambda self: self.state["pairs"])
        @rule(i=st.integers(0, 1000), flat=st.booleans())
        def dict_roundtrip(self, i, flat):
            self.do({"op": "dict", "i": i, "flat": flat})

    return SampleSetMachine
