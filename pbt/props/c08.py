"""C08 - SMC evidence is the accumulated product of incremental ratios."""
from __future__ import annotations

import math

import numpy as np
from hypothesis import strategies as st

from .. import env, refmath
from .. import smc_common as sc

ID = "C08"
LEVEL = "exploration"
BUDGET = {"quick": 500, "thorough": 36000}
SHARDS = {"quick": 8, "thorough": 16}
RULE = (
    "case = SMC run (table proposal/likelihood, frozen or random-walk kernel double, any schedule option, namespace, "
    "width, n_final_samples) plus a checkpoint cadence and a second resampling seed. Oracle: per-step ratio "
    "r_t = log-mean-exp((beta_t-beta_{t-1})(l+pi-q)) and variance v_t = Var(u)/(N mean(u)^2) recomputed in float64 "
    "from history.sample_history[t-1] and history.beta must equal history.log_norm_ratio[t], log_norm_ratio_var[t]; "
    "returned log_evidence == sum r_t, log_evidence_error == sqrt(sum v_t). Metamorphic (bitwise): same seeds "
    "with / without n_final_samples, with / without a checkpoint callback at the generated cadence, resumed from one of those checkpoints, interrupted at a generated likelihood call and resumed => identical evidence; "
    "another generator seed leaves r_1 unchanged. Non-trivial = >=2 iterations with non-constant incremental weights."
)
RULE += " " + ('Also generated: results returned in another output namespace (sample_posterior(xp=...)); runs on a sampler object that has already completed an unrelated run.')
ASSUMPTIONS = [
    "kernel packages are harness doubles; aspire's loop/resampling/accumulation code runs unmodified",
    "tolerance for recomputed ratios: 64*eps*(max|incremental log w|+1)+N*eps absolute; variances 64*N*eps relative + 256*eps/N absolute (cancellation in Var(u) when weights are nearly equal) + 16*eps*max|incremental log w|*(v+sqrt(v/N)) (rounding of log-weight differences of magnitude up to 1e8)",
    "populations are read from history.sample_history (C18 checks that this record is faithful)",
]


@st.composite
def _case(draw):
    c = draw(sc.table_case(kmin=-1))
    c["ckpt_every"] = draw(st.integers(1, 4))
    c["seed2"] = draw(st.integers(0, 2**31 - 1))
    return c


def cases(tier):
    return _case()


def _bits(v):
    return np.asarray(env.to_np(v), dtype=np.float64).tobytes()


def run_case(case, ctx):
    r = sc.run(case)
    labels = [case["ns"], case["width"], case["kind"], case["kernel"], case["route"],
              "adaptive" if case["adaptive"] else "fixed"]
    if sc.run_failed(case, r, ctx, labels):
        return {"nontrivial": False, "labels": labels}
    h = r.history
    betas = sc.floats(h.beta)
    pops = h.sample_history
    n = case["n"]
    eps = refmath.eps_of(case["width"])
    if len(pops) != len(betas) + 1 or len(h.log_norm_ratio) != len(betas):
        labels.append("history-length-mismatch(skipped; C18 decides)")
        return {"nontrivial": False, "labels": labels}
    ratios, variances = [], []
    prev = 0.0
    nonconst = 0
    for t, b in enumerate(betas, start=1):
        lw = sc.pop_log_w(pops[t - 1])
        inc = sc.incr(lw, prev, b)
        fin = inc[np.isfinite(inc)]
        if len(fin) and float(fin.max() - fin.min()) > 0:
            nonconst += 1
        rt_ref = refmath.log_mean_exp(inc)
        m = float(np.max(inc))
        with np.errstate(all="ignore"):
            u = np.exp(inc - m)
        mean_u = math.fsum(u.tolist()) / n
        var_u = math.fsum(((u - mean_u) ** 2).tolist()) / n
        vt_ref = var_u / (n * mean_u**2)
        got_r = float(env.to_np(h.log_norm_ratio[t - 1]))
        got_v = float(env.to_np(h.log_norm_ratio_var[t - 1]))
        mag = float(np.max(np.abs(fin))) if len(fin) else 0.0
        tol_r = 64 * eps * (mag + 1) + n * eps
        if not math.isfinite(got_r) or abs(got_r - rt_ref) > tol_r:
            ctx.fail("step-ratio", f"iteration {t}: recorded log ratio {got_r!r}, recomputed from population {t - 1} and "
                                   f"(beta {prev!r}->{b!r}): {rt_ref!r}", case, iteration=t)
        if not math.isfinite(got_v) or abs(got_v - vt_ref) > 64 * n * eps * vt_ref + 256 * eps / n + 16 * eps * mag * (vt_ref + math.sqrt(vt_ref / n)) + 1e-300:
            ctx.fail("step-variance", f"iteration {t}: recorded variance {got_v!r}, recomputed {vt_ref!r}", case, iteration=t)
        ratios.append(got_r)
        variances.append(got_v)
        prev = b
    lz = float(env.to_np(r.samples.log_evidence))
    lz_ref = math.fsum(ratios)
    scale = sum(abs(x) for x in ratios) + 1
    if abs(lz - lz_ref) > 16 * len(ratios) * eps * scale:
        ctx.fail("sum", f"returned log_evidence {lz!r} but sum of the recorded per-step ratios is {lz_ref!r}", case)
    err = float(env.to_np(r.samples.log_evidence_error))
    err_ref = math.sqrt(math.fsum(variances))
    if abs(err - err_ref) > 16 * (len(ratios) + 1) * eps * (err_ref + 1e-300) + 1e-300:
        ctx.fail("error-sum", f"returned log_evidence_error {err!r} but sqrt(sum v_t) = {err_ref!r}", case)

    # ---- metamorphic relations (bitwise) ---------------------------------------------------------
    base_bits = _bits(r.samples.log_evidence) + _bits(r.samples.log_evidence_error)
    # (a) final enlargement on/off
    c2 = dict(case)
    if "n_final" in c2:
        del c2["n_final"]
    else:
        c2["n_final"] = case["n"] + 3
    r2 = sc.run(c2)
    if r2.error is None and not r2.budget_hit:
        if _bits(r2.samples.log_evidence) + _bits(r2.samples.log_evidence_error) != base_bits:
            ctx.fail("meta:n_final", f"evidence changed with n_final_samples toggled: {lz!r} vs "
                                     f"{float(env.to_np(r2.samples.log_evidence))!r}", case)
    # (b) checkpointing on
    states = []
    live = []

    def _cb(st_):
        states.append(st_.get("iteration"))
        live.append(st_)  # the state object itself, kept while the run goes on

    n_calls = [0]

    def _counting(fn):
        def wrapped(samples):
            n_calls[0] += 1
            return fn(samples)
        return wrapped

    r3 = sc.run(case, extra_kwargs={"checkpoint_callback": _cb, "checkpoint_every": case["ckpt_every"]}, likelihood_wrapper=_counting)
    if r3.error is None and not r3.budget_hit:
        if _bits(r3.samples.log_evidence) + _bits(r3.samples.log_evidence_error) != base_bits:
            ctx.fail("meta:checkpoint", f"evidence changed when a checkpoint callback (every {case['ckpt_every']}) was added: "
                                        f"{lz!r} vs {float(env.to_np(r3.samples.log_evidence))!r}", case)
        if not states:
            ctx.fail("meta:checkpoint", "checkpoint callback was never invoked", case)
    elif r3.error is not None:
        ctx.fail("meta:checkpoint-raised", f"adding a checkpoint callback made the run raise {r3.error!r}", case)
    # (b') resumed from one of those checkpoints (the state object kept in memory): same evidence, bitwise
    if live and r3.error is None and not r3.budget_hit:
        k = case["seed2"] % len(live)
        r5 = sc.run(case, extra_kwargs={"resume_from": live[k]})
        if r5.error is None and not r5.budget_hit:
            if _bits(r5.samples.log_evidence) + _bits(r5.samples.log_evidence_error) != base_bits:
                ctx.fail("meta:resumed", f"evidence of the run resumed from the checkpoint of iteration {states[k]} differs from the uninterrupted run: "
                                         f"{float(env.to_np(r5.samples.log_evidence))!r} vs {lz!r} ({len(r5.history.log_norm_ratio)} vs {len(ratios)} recorded ratios)", case)
            labels.append("resumed")
    # (b'') interrupted inside an iteration (the user's likelihood raises at a generated call), then resumed from the last state object
    if n_calls[0] > 2 and r3.error is None and not r3.budget_hit:
        j = 1 + case["seed2"] % (n_calls[0] - 1)
        live2, seen = [], [0]

        class _Fault(Exception):
            pass

        def _faulting(fn):
            def wrapped(samples):
                seen[0] += 1
                if seen[0] == j + 1:
                    raise _Fault()
                return fn(samples)
            return wrapped

        r6 = sc.run(case, extra_kwargs={"checkpoint_callback": live2.append, "checkpoint_every": case["ckpt_every"]}, likelihood_wrapper=_faulting)
        if isinstance(r6.error, _Fault) and live2:
            r7 = sc.run(case, extra_kwargs={"resume_from": live2[-1]})
            if r7.error is None and not r7.budget_hit:
                if _bits(r7.samples.log_evidence) + _bits(r7.samples.log_evidence_error) != base_bits:
                    ctx.fail("meta:interrupted-resumed", f"run interrupted at likelihood call {j} and resumed from its last checkpoint (iteration "
                                                         f"{live2[-1].get('iteration')}) returns evidence {float(env.to_np(r7.samples.log_evidence))!r}, uninterrupted {lz!r} "
                                                         f"({len(r7.history.log_norm_ratio)} vs {len(ratios)} recorded ratios)", case)
                labels.append("interrupted+resumed")
        elif r6.error is not None and not isinstance(r6.error, _Fault):
            from ..runner import aspire_frame

            if aspire_frame(r6.error) is None:
                raise r6.error
    # (c) other generator seed: first ratio is computed before any resampling
    c4 = dict(case)
    c4["seed"] = case["seed2"]
    r4 = sc.run(c4)
    if r4.error is None and not r4.budget_hit and len(r4.history.log_norm_ratio) and len(h.log_norm_ratio):
        b4 = sc.floats(r4.history.beta)
        if b4[0] == betas[0] and _bits(r4.history.log_norm_ratio[0]) != _bits(h.log_norm_ratio[0]):
            ctx.fail("meta:resampling-noise", "first-step ratio depends on the generator seed", case)
    labels.append(f"iters:{'1' if len(betas) == 1 else '2-5' if len(betas) <= 5 else '>5'}")
    return {"nontrivial": len(betas) >= 2 and nonconst >= 1, "labels": labels}
