"""C14 - a checkpoint file stays self-consistent under any sequence of operations."""
from __future__ import annotations

import os
import pickle
import shutil
import tempfile

import numpy as np
from hypothesis import strategies as st
from hypothesis.stateful import precondition, rule

from .. import env
from ..runner import ops_machine_base, replay_ops
from ..runs_common import InjectedFault

ID = "C14"
LEVEL = "exploration"
BUDGET = {"quick": 1200, "thorough": 30000}
SHARDS = {"quick": 8, "thorough": 16}
STEP_COUNT = {"quick": 8, "thorough": 10}
SHRINK = {"quick": True, "thorough": True}
RULE = (
    "history = sequence (<= 8..10 steps, Hypothesis RuleBasedStateMachine) over one Aspire instance and one HDF5 file of: "
    "fit(data A|B, checkpoint_path in {None, f}, overwrite), sample_posterior(sampler in {importance, smc, emcee_smc}, explicit "
    "path | none, cadence, save_config), enter auto_checkpoint(f, every, save_config, save_flow), leave it, "
    "Aspire.resume_from_file(f) (replaces the instance) followed by sampling. Two flavours: analytic proposal double (refit "
    "changes its parameters) and real tiny Zuko flows (1 epoch). Invariant after EVERY step, when f holds a checkpoint: (I1) the "
    "proposal stored in f, loaded through the flow class's own load, evaluated at the checkpoint's particles reproduces their stored "
    "log q (1e-4) - the population was weighted under the proposal that is in the file; (I2) the sampler class selected by the "
    "stored configuration's sampler_type is the class named in the checkpoint; (I3) resuming from (a copy of) f and sampling does "
    "not raise. Non-trivial = a history in which the in-memory proposal was refitted after f already held a proposal, or the "
    "sampler type changed between two samplings into f."
)
RULE += " " + ('Further operations: new_instance (another Aspire object with its own, never fitted, supplied proposal takes over the file), sampling without a fit for supplied proposals, and sample steps interrupted by an exception at a generated likelihood call (the invariant is checked on the file the interrupted run leaves).')
RULE += " " + ('fit and sample may also name a SECOND file explicitly (inside or outside a context on the first one); the invariant is checked on both files.')
RULE += " " + ('Contexts may also be opened on the second file.')
ASSUMPTIONS = [
    "kernel packages are harness doubles; N=12 particles, 1 kernel step, fixed 2-step schedule",
    "save_config=False is only generated when the file's configuration already names the sampler about to run (otherwise the "
    "user explicitly asked for a stale configuration)",
    "the invariant resumes from a copy of the file so that checking does not change the history",
]


def new_state():
    return {"dir": tempfile.mkdtemp(prefix="c14-"), "aspire": None, "flavour": None, "fitted": False, "stack": [],
            "file_had_flow_before_refit": False, "refit_after_file_flow": False, "samplers_into_f": [], "labels": set(), "n": 0}


def cleanup(state):
    for cm in reversed(state["stack"]):
        try:
            cm.__exit__(None, None, None)
        except Exception:
            pass
    shutil.rmtree(state["dir"], ignore_errors=True)


def finish(state):
    types = state["samplers_into_f"]
    changed = any(a != b for a, b in zip(types, types[1:]))
    return {"nontrivial": bool(state["refit_after_file_flow"] or changed), "labels": sorted(state["labels"])}


def _f(state, which="f"):
    return os.path.join(state["dir"], "run.h5" if which == "f" else "other.h5")


def _callables(xp, state=None):
    def log_likelihood(s):
        if state is not None:
            state["ll_calls"] = state.get("ll_calls", 0) + 1
            if state.get("fault_at") is not None and state["ll_calls"] == state["fault_at"]:
                raise InjectedFault(f"likelihood call {state['ll_calls']}")
        xp = s.xp  # namespace-agnostic: the instance in charge may change within a history
        return -0.5 * xp.sum((s.x - 0.2) ** 2 / 0.09, axis=-1)

    def log_prior(s):
        xp = s.xp
        return xp.where(xp.all((s.x > -4) & (s.x < 4), axis=-1), -2 * float(np.log(8.0)), -xp.inf)

    return log_likelihood, log_prior


def _make(state, flavour, seed):
    from aspire import Aspire

    xp = env.xp_of("torch" if flavour == "zuko" else "numpy")
    ll, lp = _callables(xp, state)
    state["ll"], state["lp"], state["xp"] = ll, lp, xp
    kw = dict(log_likelihood=ll, log_prior=lp, dims=2, parameters=["a", "b"], prior_bounds={"a": [-4.0, 4.0], "b": [-4.0, 4.0]}, xp=xp)
    if flavour == "zuko":
        return Aspire(flow_backend="zuko", seed=seed, hidden_features=[8], transforms=1, **kw)
    from pbt_flows import AnalyticFlow

    # the supplied proposal depends on the seed, so two instances created in one history hold different proposals
    loc = [0.2 * (seed % 5) - 0.4, 0.1 * (seed % 3)]
    scale = [1.0 + 0.25 * (seed % 4), 1.0]
    return Aspire(flow=AnalyticFlow(2, kind="normal", loc=loc, scale=scale, seed=seed), flow_backend="pbt_analytic", **kw)


def _data(which, xp):
    from aspire.samples import Samples

    g = np.random.default_rng(7 if which == "A" else 11)
    x = g.normal(size=(64, 2)) * (0.25 if which == "A" else 0.6) + (0.3 if which == "A" else -0.4)
    return Samples(x, xp=xp, parameters=["a", "b"])


def _file_state(path):
    from aspire.utils import AspireFile, load_from_h5_file

    if not os.path.exists(path):
        return None
    with AspireFile(path, "r") as h:
        out = {"has_flow": "flow" in h, "has_cfg": "aspire_config" in h, "cfg": None, "ckpt": None}
        if out["has_cfg"]:
            out["cfg"] = load_from_h5_file(h, "aspire_config")
        if "checkpoint" in h and "state" in h["checkpoint"]:
            out["ckpt"] = h["checkpoint"]["state"][...].tobytes()
    return out


def _invariant(state, ctx, case, after):
    for which in ("f", "g"):
        _invariant_file(state, ctx, case, after + ("" if which == "f" else " [second file]"), _f(state, which))


def _invariant_file(state, ctx, case, after, path):
    from aspire import Aspire
    from aspire.flows import get_flow_wrapper
    from aspire.utils import AspireFile

    fs = _file_state(path)
    if not fs or fs["ckpt"] is None:
        return
    st_ = pickle.loads(fs["ckpt"])
    state["labels"].add("invariant-checked")
    # I2
    if not fs["has_cfg"] or not fs["has_flow"]:
        ctx.fail("I0:file-incomplete", f"after {after}: file holds a checkpoint but config={fs['has_cfg']} flow={fs['has_flow']}", case)
        return
    stype = fs["cfg"].get("sampler_type")
    try:
        cls_name = Aspire.get_sampler_class(None, stype).__name__ if stype else None
    except Exception:
        cls_name = None
    if cls_name != st_.get("sampler"):
        ctx.fail("I2:sampler-type", f"after {after}: stored configuration names sampler {stype!r} ({cls_name}) but the checkpoint was "
                                    f"written by {st_.get('sampler')!r}", case, config_sampler=stype, checkpoint_sampler=st_.get("sampler"))
    # I1
    FlowClass, _ = get_flow_wrapper(fs["cfg"]["flow_backend"])
    with AspireFile(path, "r") as h:
        flow = FlowClass.load(h, "flow")
    pop = st_["samples"]
    x = env.to_np(pop.x).astype(np.float64)
    lq = env.to_np(pop.log_q).astype(np.float64)
    ref = env.to_np(flow.log_prob(env.to_np(pop.x))).astype(np.float64)
    bad = np.abs(ref - lq) > 1e-4 * (np.abs(lq) + 1)
    if bad.any():
        j = int(np.argmax(np.abs(ref - lq)))
        ctx.fail("I1:stale-proposal", f"after {after}: the proposal stored in the file gives log q={ref[j]:.6g} at checkpoint particle {j}, "
                                      f"whose stored log q is {lq[j]:.6g}: the population was weighted under a different proposal than the one in the file",
                 case, max_abs_diff=float(np.max(np.abs(ref - lq))))
    # I3
    copy = os.path.join(state["dir"], "copy.h5")
    shutil.copyfile(path, copy)
    try:
        import emcee
        import minipcn

        minipcn.reset(); emcee.reset()
        A2 = Aspire.resume_from_file(copy, log_likelihood=state["ll"], log_prior=state["lp"])
        try:
            A2.sample_posterior()
        except Exception as e:  # noqa: BLE001
            from ..runner import aspire_frame

            fr = aspire_frame(e)
            if fr is None:
                raise
            ctx.fail(f"I3:resume-raised:{type(e).__name__}@{fr}", f"after {after}: resuming from the file and sampling raised {type(e).__name__}: {e}", case)
    finally:
        try:
            os.remove(copy)
        except OSError:
            pass


def apply(state, op, ctx, case):
    import emcee
    import minipcn
    from aspire import Aspire

    kind = op["op"]
    state["n"] += 1
    path = _f(state)
    if kind == "create":
        if state["aspire"] is None:
            state["flavour"] = op["flavour"]
            state["aspire"] = _make(state, op["flavour"], op["seed"])
            state["labels"].add("flavour:" + op["flavour"])
        return
    if kind == "new_instance":
        # another Aspire object of the same kind (analytic: its own, never fitted, supplied proposal; zuko: an untrained flow of another seed) takes over; the file stays
        if state["aspire"] is None or state["stack"]:
            return
        fs0 = _file_state(path)
        if fs0 and fs0["has_flow"]:
            state["refit_after_file_flow"] = True
        # (same back-end as before: a file shared between instances of different flow back-ends is not a history of one problem)
        state["aspire"] = _make(state, state["flavour"], op["seed"] + 1)
        state["fitted"] = False
        state["labels"].add("new-instance")
        return
    a = state["aspire"]
    if a is None:
        return
    xp = state["xp"]
    fs0 = _file_state(path)
    if kind == "fit":
        p = _f(state, op["path"]) if op["path"] in ("f", "g") else None
        if op["path"] == "g":
            state["labels"].add("second-file")
        if fs0 and fs0["has_flow"] and state["fitted"]:
            state["refit_after_file_flow"] = True
        kw = {"n_epochs": 1, "batch_size": 64} if state["flavour"] == "zuko" else {}
        a.fit(_data(op["data"], xp), checkpoint_path=p, overwrite=op["overwrite"], **kw)
        state["fitted"] = True
        state["labels"].add("fit")
    elif kind == "sample":
        if not state["fitted"] and state["flavour"] != "analytic":
            return  # (a proposal supplied at construction can be sampled without a fit)
        in_auto = bool(state["stack"])
        p = _f(state, op["path"]) if op["path"] in ("f", "g") else None
        if op["path"] == "g":
            state["labels"].add("second-file")
        target = p or (getattr(a, "_checkpoint_defaults", {}) or {}).get("path")
        save_cfg = op["save_config"]
        if not save_cfg:
            fs_t = _file_state(str(target)) if target else fs0
            cfg_type = (fs_t or {}).get("cfg", None)
            cfg_type = cfg_type.get("sampler_type") if cfg_type else None
            if cfg_type != op["sampler"]:
                save_cfg = True  # see ASSUMPTIONS
        kw = dict(n_samples=12, sampler=op["sampler"])
        if p is not None:
            kw.update(checkpoint_path=p, checkpoint_every=op["every"], checkpoint_save_config=save_cfg)
        if op["sampler"] == "smc":
            kw.update(adaptive=False, n_steps=2, rng=np.random.default_rng(op["seed"]), sampler_kwargs={"n_steps": 1, "step_fn": "rw"})
        elif op["sampler"] == "emcee_smc":
            kw.update(adaptive=False, n_steps=2, sampler_kwargs={"nsteps": 1, "progress": False})
        minipcn.reset(); emcee.reset()
        np.random.seed(op["seed"] % 2**32)
        state["ll_calls"], state["fault_at"] = 0, op.get("fault_at")
        try:
            a.sample_posterior(**kw)
        except InjectedFault:
            state["labels"].add("interrupted")
        finally:
            state["fault_at"] = None
        if target and os.path.abspath(str(target)) == os.path.abspath(path) and op["sampler"] != "importance":
            state["samplers_into_f"].append(op["sampler"])
        state["labels"].add("sample:" + op["sampler"])
    elif kind == "enter_auto":
        if len(state["stack"]) >= 2:
            return
        if op.get("which") == "g":
            state["labels"].add("context-on-second-file")
        cm = a.auto_checkpoint(_f(state, op.get("which", "f")), every=op["every"], save_config=True if op["save_config"] else True,
                               save_flow=op["save_flow"])
        cm.__enter__()
        state["stack"].append(cm)
        state["labels"].add("auto")
    elif kind == "exit_auto":
        if not state["stack"]:
            return
        state["stack"].pop().__exit__(None, None, None)
    elif kind == "resume":
        if not fs0 or not fs0["has_cfg"] or not fs0["has_flow"] or state["stack"]:
            return
        state["aspire"] = Aspire.resume_from_file(path, log_likelihood=state["ll"], log_prior=state["lp"])
        state["fitted"] = True
        if op.get("sample", True):
            minipcn.reset(); emcee.reset()
            state["aspire"].sample_posterior()
            state["labels"].add("resume")
        else:
            # only rebuilt from the file: what happens next (refit, sampling with some sampler, a context) is up to the history
            state["labels"].add("resume-without-sampling")
    else:
        raise ValueError(kind)
    _invariant(state, ctx, case, f"step {state['n']} ({kind})")


def run_case(case, ctx):
    import sys

    return replay_ops(sys.modules[__name__], case, ctx)


def machine(tier, ctx, last):
    import sys

    Base = ops_machine_base(sys.modules[__name__], ctx, last)

    class CheckpointFileMachine(Base):
        @precondition(lambda self: self.state["aspire"] is None)
        @rule(flavour=st.sampled_from(["analytic", "analytic", "analytic", "zuko"]), seed=st.integers(0, 10**6))
        def create(self, flavour, seed):
            self.do({"op": "create", "flavour": flavour, "seed": seed})

        @precondition(lambda self: self.state["aspire"] is not None)
        @rule(data=st.sampled_from(["A", "B"]), path=st.sampled_from([None, "f", "f", "g"]), overwrite=st.sampled_from([False, False, True]))
        def fit(self, data, path, overwrite):
            self.do({"op": "fit", "data": data, "path": path, "overwrite": overwrite})

        @precondition(lambda self: self.state["fitted"] or (self.state["aspire"] is not None and self.state["flavour"] == "analytic"))
        @rule(sampler=st.sampled_from(["importance", "smc", "smc", "emcee_smc"]), path=st.sampled_from([None, "f", "f", "g"]),
              every=st.integers(1, 3), save_config=st.sampled_from([True, True, True, False]), seed=st.integers(0, 10**6),
              fault_at=st.one_of(st.none(), st.none(), st.integers(1, 9)))
        def sample(self, sampler, path, every, save_config, seed, fault_at):
            self.do({"op": "sample", "sampler": sampler, "path": path, "every": every, "save_config": save_config, "seed": seed,
                     "fault_at": fault_at})

        @precondition(lambda self: self.state["aspire"] is not None and not self.state["stack"])
        @rule(seed=st.integers(0, 10**6))
        def new_instance(self, seed):
            self.do({"op": "new_instance", "seed": seed})

        @precondition(lambda self: self.state["aspire"] is not None and len(self.state["stack"]) < 2)
        @rule(every=st.integers(1, 3), save_config=st.booleans(), save_flow=st.booleans(), which=st.sampled_from(["f", "f", "g"]))
        def enter_auto(self, every, save_config, save_flow, which):
            self.do({"op": "enter_auto", "every": every, "save_config": save_config, "save_flow": save_flow, "which": which})

        @precondition(lambda self: self.state["stack"])
        @rule()
        def exit_auto(self):
            self.do({"op": "exit_auto"})

        @precondition(lambda self: self.state["fitted"] and not self.state["stack"])
        @rule(sample=st.sampled_from([True, True, False]))
        def resume(self, sample):
            self.do({"op": "resume", "sample": sample})

    return CheckpointFileMachine
