"""C09 - resampling selects by incremental weight and copies particles intact."""
from __future__ import annotations

import math

import numpy as np
from hypothesis import strategies as st

from .. import env, refmath
from .. import smc_common as sc

ID = "C09"
LEVEL = "exploration"
BUDGET = {"quick": 4000, "thorough": 200000}
SHARDS = {"quick": 8, "thorough": 16}
RULE = (
    "case = SMCSamples population (generated x, log L, log pi, log q; N in [2,300]; namespace; width; -inf likelihood "
    "subset; ties) x temperature pair beta_old < beta_new (gap >= 1e-8) x requested size (None, smaller, "
    "larger) x a recording generator (duck-typed choice() that stores p and size and returns indices from a seeded numpy "
    "Generator). Every 8th case instead observes the same generator inside a whole SMC run. Oracle: recorded p == softmax of "
    "(beta_new-beta_old)(l+pi-q) in float64, sums to 1, size == requested; every output row j equals source row idx[j] "
    "bitwise in all four fields; result carries beta_new, requested size, same namespace and width. "
    "Non-trivial = non-uniform p AND >=1 duplicated AND >=1 dropped source row."
)
RULE += " " + ('Object histories before the resampling call: weights / evidence ratio / tempered density evaluated at the target temperature (these read-only diagnostics must leave x and the three densities unchanged), then optionally the likelihood or the temperature assigned as the samplers do.')
ASSUMPTIONS = [
    "p tolerance: 64*eps*(max|incremental log w|+1) + N*eps relative to each p_i plus 1e-300 (float64) or 1e-30 (float32, sub-normal range) absolute",
    "the recording generator forwards to numpy.random.Generator(seed) so index draws are genuine",
]

_unit = st.floats(-1.0, 1.0, allow_nan=False, width=32)


class RecordingRNG:
    """Duck-typed generator: records every choice() call, forwards to a seeded numpy Generator."""

    def __init__(self, seed):
        self._g = np.random.default_rng(seed)
        self.calls = []

    def choice(self, a, size=None, replace=True, p=None):
        idx = self._g.choice(a, size=size, replace=replace, p=p)
        self.calls.append({"a": a, "size": size, "replace": replace,
                           "p": None if p is None else np.array(p, dtype=np.float64, copy=True),
                           "p_dtype": None if p is None else str(np.asarray(p).dtype), "idx": np.array(idx, copy=True)})
        return idx

    def normal(self, *a, **k):
        return self._g.normal(*a, **k)

    def uniform(self, *a, **k):
        return self._g.uniform(*a, **k)


@st.composite
def _case(draw):
    if draw(st.integers(0, 7)) == 0:
        c = draw(sc.table_case(kmin=-1, max_n=60))
        c["mode"] = "run"
        return c
    ns = draw(st.sampled_from(["numpy", "torch", "jax"]))
    width = draw(st.sampled_from(["float32", "float64"]))
    n = draw(st.one_of(st.integers(2, 8), st.integers(2, 40), st.integers(2, 300)))
    d = draw(st.integers(1, 3))
    k = draw(st.integers(-2, 1 if width == "float32" else 4))
    scale = 10.0**k
    kind = draw(st.sampled_from(["generic", "ties", "flat"]))
    if kind == "flat":
        ll = [draw(_unit) * scale] * n
    elif kind == "ties":
        pool = draw(st.lists(_unit, min_size=2, max_size=3))
        ll = [scale * v for v in draw(st.lists(st.sampled_from(pool), min_size=n, max_size=n))]
    else:
        ll = [scale * v for v in draw(st.lists(_unit, min_size=n, max_size=n))]
    lp = draw(st.lists(_unit, min_size=n, max_size=n))
    lq = draw(st.lists(_unit, min_size=n, max_size=n))
    if n > 2 and draw(st.integers(0, 3)) == 0:
        m = draw(st.integers(1, n - 2))
        for i in draw(st.lists(st.integers(0, n - 1), min_size=m, max_size=m, unique=True)):
            ll[i] = float("-inf")
    b_old = draw(st.sampled_from([0.0, 0.0, 0.25, 0.5, 0.9])) if draw(st.booleans()) else draw(st.floats(0.0, 0.99))
    # temperature moves of a real run are never smaller than beta_tolerance/2 >= 5e-9
    b_new = draw(st.one_of(st.just(1.0), st.floats(min(1.0, b_old + 1e-8), 1.0)))
    size = draw(st.sampled_from(["none", "none", "smaller", "larger", "same"]))
    m = None
    if size == "smaller":
        m = draw(st.integers(1, n))
    elif size == "larger":
        m = n + draw(st.integers(1, 40))
    elif size == "same":
        m = n
    return {"mode": "direct", "ns": ns, "width": width, "n": n, "d": d, "kind": kind, "ll": ll, "lp": lp, "lq": lq,
            "beta_old": b_old, "beta_new": b_new, "size": m, "seed": draw(st.integers(0, 2**31 - 1)),
            "x_seed": draw(st.integers(0, 2**31 - 1)),
            # history of the population object before the resampling call: diagnostics evaluated on it (weights / ESS at the
            # target temperature), optionally followed by assigning its densities or temperature (as the samplers do)
            "pre": draw(st.sampled_from([None, None, "diag", "diag+assign-ll", "diag+assign-beta"]))}


def cases(tier):
    return _case()


def _check_call(case, ctx, src, out, call, b_old, b_new, want_size, width, tag=""):
    n = len(src.x)
    eps = refmath.eps_of(width)
    lw = sc.pop_log_w(src)
    inc = sc.incr(lw, b_old, b_new)
    if b_new == b_old:
        inc = np.where(np.isfinite(lw), 0.0, inc)
    p_ref = refmath.softmax(inc)
    p = call["p"]
    if p is None or len(p) != n:
        ctx.fail(f"{tag}p-shape", f"generator received p of length {None if p is None else len(p)} for {n} particles", case)
        return False
    fin = inc[np.isfinite(inc)]
    rtol = 64 * eps * ((float(np.max(np.abs(fin))) if len(fin) else 0.0) + 1) + 4 * n * eps
    # absolute floor: float32 probabilities below the smallest normal number are sub-normal (few significant bits)
    bad = np.abs(p - p_ref) > rtol * p_ref + (1e-30 if width == "float32" else 1e-300)
    if bad.any():
        i = int(np.argmax(bad))
        ctx.fail(f"{tag}p-values", f"selection probability of particle {i} is {p[i]!r}; incremental weight "
                                   f"(beta {b_old!r}->{b_new!r}) normalised is {p_ref[i]!r}", case, index=i)
    if abs(float(p.sum()) - 1.0) > 4 * n * eps + 1e-12:
        ctx.fail(f"{tag}p-sum", f"probabilities sum to {float(p.sum())!r}", case)
    if call["a"] != n or call["replace"] is not True:
        ctx.fail(f"{tag}choice-args", f"choice called with a={call['a']!r}, replace={call['replace']!r}", case)
    size = call["size"]
    if (np.prod(size) if size is not None else None) != want_size:
        ctx.fail(f"{tag}size", f"generator asked for size={size!r}, requested {want_size}", case)
    idx = np.asarray(call["idx"]).reshape(-1)
    if len(out.x) != want_size:
        ctx.fail(f"{tag}out-size", f"resampled population has {len(out.x)} particles, requested {want_size}", case)
        return False
    for name in ("x", "log_likelihood", "log_prior", "log_q"):
        a = env.to_np(getattr(out, name))
        b = env.to_np(getattr(src, name))[idx]
        if a.dtype != b.dtype or not np.array_equal(a, b, equal_nan=True):
            j = int(np.argmax(np.any(np.atleast_2d((a != b).reshape(len(a), -1)), axis=1))) if a.shape == b.shape else -1
            ctx.fail(f"{tag}row-copy:{name}", f"{name} of resampled particle {j} is not {name} of its source row idx[{j}]={idx[j] if j >= 0 else '?'}",
                     case, field=name)
    if out.beta is None or float(out.beta) != float(b_new):
        ctx.fail(f"{tag}beta", f"resampled population carries beta={out.beta!r}, expected {b_new!r}", case)
    if env.width_of(out.x) != env.width_of(src.x) or type(out.x) is not type(src.x):
        ctx.fail(f"{tag}namespace", f"resampled x is {type(out.x).__name__}/{out.x.dtype}, source {type(src.x).__name__}/{src.x.dtype}", case)
    uniq = np.unique(idx)
    nonuniform = float(p_ref.max() - p_ref.min()) > 1e-9
    return bool(nonuniform and len(uniq) < len(idx) and len(uniq) < n)


def _run_mode(case, ctx):
    """Observe resampling inside a whole run through a recording generator given to the sampling call."""
    from aspire import Aspire
    import minipcn

    rec = RecordingRNG(case["seed"])
    xp, dt, flow, ll_fn, lp_fn = sc.build(case)
    minipcn.reset()
    minipcn.step_budget = sc.iteration_budget(case) + 1
    a = Aspire(log_likelihood=ll_fn, log_prior=lp_fn, dims=case["dims"], parameters=[f"p{i}" for i in range(case["dims"])],
               flow=flow, flow_backend="pbt_table", xp=xp, dtype=dt)
    try:
        samples, h = a.sample_posterior(n_samples=case["n"], sampler="smc", return_history=True, preconditioning="none",
                                        rng=rec, **sc.sample_kwargs(case))
    except minipcn.StepBudgetExceeded:
        return {"nontrivial": False, "labels": ["run", "over-budget(skipped)"]}
    finally:
        minipcn.reset()
    betas = sc.floats(h.beta)
    pops = h.sample_history
    enlarged = "n_final" in case and case["n_final"] != case["n"]
    if len(rec.calls) != len(betas) + (1 if enlarged else 0):
        ctx.fail("run:calls", f"{len(rec.calls)} resampling draws for {len(betas)} iterations (enlargement={enlarged})", case)
        return {"nontrivial": False, "labels": ["run"]}
    nt = False
    prev = 0.0
    if case["kernel"] == "frozen" and len(pops) == len(betas) + 1:
        # frozen kernel: population t is exactly the resampled population of iteration t
        for t, b in enumerate(betas, start=1):
            nt |= _check_call(case, ctx, pops[t - 1], pops[t], rec.calls[t - 1], prev, b, case["n"], case["width"], tag="run:")
            prev = b
    else:
        for t, b in enumerate(betas, start=1):
            if len(pops) == len(betas) + 1:
                src = pops[t - 1]
                lw = sc.pop_log_w(src)
                p_ref = refmath.softmax(sc.incr(lw, prev, b))
                p = rec.calls[t - 1]["p"]
                eps = refmath.eps_of(case["width"])
                inc = sc.incr(lw, prev, b)
                fin = inc[np.isfinite(inc)]
                rtol = 64 * eps * ((float(np.max(np.abs(fin))) if len(fin) else 0.0) + 1) + 4 * case["n"] * eps
                if len(p) != len(p_ref) or (np.abs(p - p_ref) > rtol * p_ref + (1e-30 if case["width"] == "float32" else 1e-300)).any():
                    ctx.fail("run:p-values", f"iteration {t}: selection probabilities differ from the normalised incremental weights", case)
            prev = b
    return {"nontrivial": nt, "labels": ["run", case["kernel"], case["ns"], case["width"]]}


def run_case(case, ctx):
    from aspire.samples import SMCSamples

    if case["mode"] == "run":
        return _run_mode(case, ctx)
    xp = env.xp_of(case["ns"])
    dt = env.native_dtype(case["ns"], case["width"])
    n, d = case["n"], case["d"]
    x = np.random.default_rng(case["x_seed"]).normal(size=(n, d))
    x[:, 0] = np.arange(n)
    ll = np.array([float(v) for v in case["ll"]])
    pre = case.get("pre")
    # the values the object is built with when they are assigned afterwards: another finite vector
    ll0 = (0.5 * np.where(np.isfinite(ll[::-1]), ll[::-1], 0.0) - 1.0) if pre == "diag+assign-ll" else ll
    b0 = 0.0 if (pre == "diag+assign-beta" and case["beta_old"] > 0) else float(case["beta_old"])
    src = SMCSamples(x=x, log_likelihood=ll0, log_prior=np.array(case["lp"], dtype=float), log_q=np.array(case["lq"], dtype=float),
                     beta=b0, xp=xp, dtype=dt)
    if pre:
        bn = float(case["beta_new"])
        before = {f: env.to_np(getattr(src, f)).copy() for f in ("x", "log_likelihood", "log_prior", "log_q")}
        for fn in ("log_weights", "unnormalized_log_weights", "log_evidence_ratio", "log_evidence_ratio_variance", "log_p_t"):
            if hasattr(src, fn):
                try:
                    getattr(src, fn)(bn)
                except ValueError as e:
                    if "NaN" not in str(e):
                        raise
        for f, v in before.items():
            # diagnostics are read-only: the particles that are resampled afterwards must still be the ones that were built
            if not np.array_equal(env.to_np(getattr(src, f)), v, equal_nan=True):
                ctx.fail(f"diagnostic-modified:{f}", f"evaluating weights / tempered densities of the population changed its {f}", case, field=f)
        if pre == "diag+assign-ll":
            src.log_likelihood = src.array_to_namespace(ll)
        elif pre == "diag+assign-beta":
            src.beta = float(case["beta_old"])
    rec = RecordingRNG(case["seed"])
    out = src.resample(float(case["beta_new"]), n_samples=case["size"], rng=rec)
    labels = ["direct", case["ns"], case["width"], case["kind"], "size:" + ("none" if case["size"] is None else "given"), f"pre:{pre}"]
    if len(rec.calls) != 1:
        ctx.fail("calls", f"resample drew {len(rec.calls)} times from the generator", case)
        return {"nontrivial": False, "labels": labels}
    want = case["size"] if case["size"] is not None else n
    nt = _check_call(case, ctx, src, out, rec.calls[0], float(case["beta_old"]), float(case["beta_new"]), want, case["width"])
    if np.isneginf(ll).any():
        labels.append("has-neginf")
        sel = np.asarray(rec.calls[0]["idx"]).reshape(-1)
        if np.isneginf(ll[sel]).any():
            ctx.fail("zero-weight-selected", "a particle with -inf likelihood (zero incremental weight) was selected", case)
    return {"nontrivial": nt, "labels": labels}
