"""C17 - prior is evaluated before likelihood on the same points; evaluations are counted."""
from __future__ import annotations

import pickle
import traceback

import numpy as np

from .. import env
from .. import runs_common as rc

ID = "C17"
LEVEL = "exploration"
BUDGET = {"quick": 400, "thorough": 25000}
SHARDS = {"quick": 8, "thorough": 16}
RULE = (
    "case = whole run of sampler in {importance, smc (MiniPCN kernel), emcee_smc, minipcn, emcee} x preconditioning option "
    "set x namespace x width x proposal leaking 0-70% of its mass outside the prior support x N x n_final_samples x schedule "
    "x checkpoint cadence x resume from a generated checkpoint, plus Aspire.convert_to_samples on generated points. The user likelihood is wrapped by a recorder. Oracle at EVERY "
    "call: the argument's log_prior is not None, has one value per row, and equals pi recomputed (float64 reference) on the "
    "argument's own coordinates; after the run Aspire.n_likelihood_evaluations == sum of rows over all recorded calls (for a "
    "resumed run: the calls of that run; for a run in which the likelihood raises at a generated call: including that call). Non-trivial = >=3 distinct aspire call sites reached the likelihood in the run "
    "(initial draw, kernel target, post-mutation re-evaluation, enlargement, evidence samples...)."
)
RULE += " " + ('For SMC samplers in half of the cases the same sampler object is run a second time: every call of that run is checked too and the count covers both runs.')
RULE += " " + ('A quarter of those second runs happen inside an enable_pool context entered after the sampler object was built.')
ASSUMPTIONS = [
    "kernel packages are harness doubles (every target evaluation of the kernel goes through aspire's own log_prob)",
    "prior comparison tolerance 4e-6*(|v|+1) for float32 populations, 1e-12*(|v|+1) for float64",
    "BlackJAX sampler not exercised (package absent)",
]


from hypothesis import strategies as st


@st.composite
def _case(draw):
    c = draw(rc.run_case())
    # in a third of the cases the user's likelihood raises at a generated call: points it was asked about still count
    c["fault_call"] = draw(st.one_of(st.none(), st.none(), st.integers(0, 40)))
    return c


def cases(tier):
    return _case()


def _site():
    for fs in reversed(traceback.extract_stack(limit=14)):
        if "/aspire/" in fs.filename and "/pbt/" not in fs.filename:
            site = f"{fs.filename.rsplit('/aspire/', 1)[1]}:{fs.name}"
            if site != "samplers/base.py:log_likelihood":  # the counting wrapper itself
                return site
    return "?"


def _check_calls(P, ctx, case, tag):
    for i, c in enumerate(P.calls):
        # tolerance follows the width of the array that was actually attached
        tol = 1e-12 if c.get("lp_width") == "float64" else 4e-6
        if c["lp"] is None:
            ctx.fail(f"{tag}prior-missing", f"likelihood call {i} ({c.get('site')}) received samples without log_prior", case,
                     site=c.get("site"))
            continue
        lp = np.asarray(c["lp"]).reshape(-1)
        x = c["x"].reshape(-1, case["d"])
        if lp.shape[0] != x.shape[0]:
            ctx.fail(f"{tag}prior-shape", f"likelihood call {i} ({c.get('site')}): log_prior has {lp.shape[0]} values for {x.shape[0]} rows",
                     case, site=c.get("site"))
            continue
        ref = P.P_ref(x)
        with np.errstate(all="ignore"):
            bad = ~((lp == ref) | (np.isfinite(ref) & (np.abs(lp - ref) <= tol * (np.abs(ref) + 1))))
        if bad.any():
            j = int(np.argmax(bad))
            ctx.fail(f"{tag}prior-mismatch", f"likelihood call {i} ({c.get('site')}): attached log_prior[{j}]={lp[j]!r} but the prior of "
                                             f"that row is {ref[j]!r}", case, site=c.get("site"))
    total = sum(c["n"] for c in P.calls)
    got = P.aspire.n_likelihood_evaluations
    if got != total:
        ctx.fail(f"{tag}count", f"n_likelihood_evaluations={got} but the likelihood was asked for {total} points in {len(P.calls)} calls",
                 case, reported=got, actual=total)


def run_case(case, ctx):
    P = rc.Problem(case)
    orig = P.aspire.log_likelihood

    def with_site(samples, map_fn=None):
        n0 = len(P.calls)
        try:
            return orig(samples)
        finally:
            if len(P.calls) > n0:
                P.calls[n0]["site"] = _site()

    P.aspire.log_likelihood = with_site
    payloads = []
    cb = (lambda s: payloads.append(pickle.dumps(s))) if case.get("ckpt_every") else None
    P.run(cb)
    if P.rejected:
        return {"nontrivial": False, "labels": [case["sampler"], "rejected:documented-NaN-ValueError"]}
    _check_calls(P, ctx, case, "")
    sites = {c.get("site") for c in P.calls}
    n_first = len(P.calls)  # likelihood calls of the (first) run
    labels = [case["sampler"], case["ns"], str(case["width"]), "pre:" + case["pre"], f"leak:{case['leak']}", f"sites:{len(sites)}"]
    if case["sampler"] in ("smc", "emcee_smc") and case["seed"] % 2 and P.aspire.sampler is not None:
        # the same sampler object is run a second time: every call is still checked, and the count covers both runs
        import emcee
        import minipcn

        kw = P.sample_kwargs()
        n = kw.pop("n_samples")
        for k_ in ("sampler", "preconditioning", "preconditioning_kwargs", "return_history"):
            kw.pop(k_, None)
        minipcn.reset(); emcee.reset()
        minipcn.step_budget = 500
        try:
            if case["seed"] % 4 == 1:
                # ... inside a pool context entered after the sampler object was built
                class _Pool:
                    def map(self, fn, it):
                        return list(map(fn, it))

                    def close(self):
                        pass

                    def join(self):
                        pass

                with P.aspire.enable_pool(_Pool()):
                    P.aspire.sampler.sample(n, **kw)
                labels.append("second-run-in-pool-context")
            else:
                P.aspire.sampler.sample(n, **kw)
            _check_calls(P, ctx, case, "second-run:")
            labels.append("sampler-run-again")
        except ValueError as e:
            if "NaN values" not in str(e):
                raise
        finally:
            minipcn.reset(); emcee.reset()
    resumed = False
    if payloads and case.get("resume_pick") is not None and case["sampler"] == "smc":
        blob = payloads[case["resume_pick"] % len(payloads)]
        P2 = rc.Problem(case)
        P2.run(resume_from=blob)
        if not P2.rejected:
            _check_calls(P2, ctx, case, "resumed:")
        resumed = True
        labels.append("resumed")
    # the instance-level entry point that evaluates user-supplied points (prior first, then likelihood)
    Pc = rc.Problem(case)
    g = np.random.default_rng(case["seed"])
    pts = Pc.lo + (Pc.hi - Pc.lo) * g.uniform(-0.1, 1.1, size=(7, case["d"]))  # some points outside the prior support
    ok, conv = ctx.guard("convert_to_samples", Pc.aspire.convert_to_samples, pts, log_q=Pc.flow._log_q(pts), case=case)
    if ok:
        if len(Pc.calls) != 1:
            ctx.fail("convert:calls", f"convert_to_samples called the likelihood {len(Pc.calls)} times", case)
        else:
            Pc2 = Pc
            _check_one = Pc2.calls[0]
            if _check_one["lp"] is None:
                ctx.fail("convert:prior-missing", "convert_to_samples called the likelihood on samples without log_prior", case)
            else:
                ref = Pc2.P_ref(_check_one["x"].reshape(-1, case["d"]))
                lp = np.asarray(_check_one["lp"]).reshape(-1)
                tol = 1e-12 if _check_one.get("lp_width") == "float64" else 4e-6
                with np.errstate(all="ignore"):
                    bad = ~((lp == ref) | (np.isfinite(ref) & (np.abs(lp - ref) <= tol * (np.abs(ref) + 1))))
                if lp.shape != ref.shape or bad.any():
                    ctx.fail("convert:prior-mismatch", "convert_to_samples handed the likelihood a log_prior that is not the prior of those points", case)
        labels.append("convert_to_samples")
    if case.get("fault_call") is not None and n_first > 1:
        k = case["fault_call"] % n_first
        Pf = rc.Problem(case, fault_at=k)
        try:
            Pf.run(None)
            ctx.fail("fault:not-raised", f"harness: likelihood call {k} never happened in the repeated run", case)
        except rc.InjectedFault:
            asked = sum(c["n"] for c in Pf.calls)
            got = Pf.aspire.n_likelihood_evaluations
            if got != asked:
                ctx.fail("fault:count", f"after the user's likelihood raised at call {k}, n_likelihood_evaluations={got} but the likelihood had been "
                                        f"asked for {asked} points (including the call that raised)", case, reported=got, actual=asked)
        labels.append("fault-injected")
    return {"nontrivial": len(sites) >= 3, "labels": labels}
