"""C02 - weights, evidence, ESS are exact functionals of the per-sample log-densities."""
from __future__ import annotations

import math

import numpy as np
from hypothesis import strategies as st

from .. import env, refmath

ID = "C02"
LEVEL = "exploration"
BUDGET = {"quick": 2400, "thorough": 240000}
SHARDS = {"quick": 8, "thorough": 16}
RULE = (
    "case = (namespace, float width, N in [2,400], three generated log-density vectors "
    "ll/lp/lq = 10^k*u with k in [-3,5], optional ties / one dominant weight / all-equal / a proper "
    "subset of ll or lp equal to -inf, a constant shift c with |c|<=1e5, a permutation, index-array / slice selections, a seed for the "
    "rejection-sampling generator). Oracle = float64/fsum reference formulas on the stored values. "
    "Non-trivial = weights not all equal AND (>=1 -inf entry OR range(log_w)>50 OR an exact tie in log_w); "
    "distinct = distinct case hash."
)
ASSUMPTIONS = [
    "reference values are computed in float64 with exact (fsum) summation from the values the sample set stores",
    "tolerances: elementwise 4*eps*(|ll|+|lp|+|lq|); log Z 8*eps*(|max|+log N+1)+N*eps; ESS and relative "
    "error 8*N*eps relative (+16*N*eps absolute for the relative error)",
    "-inf is only placed in log-likelihood / log-prior (zero weight), never in the proposal density",
]

_unit = st.floats(-1.0, 1.0, allow_nan=False, allow_infinity=False, width=32)


@st.composite
def _case(draw):
    ns = draw(st.sampled_from(["numpy", "torch", "jax"]))
    width = draw(st.sampled_from(["float32", "float64"]))
    n = draw(st.one_of(st.integers(2, 12), st.integers(2, 60), st.integers(2, 400)))
    kind = draw(st.sampled_from(["generic", "generic", "ties", "dominant", "equal", "huge"]))
    k = 5 if kind == "huge" else draw(st.integers(-3, 5))
    scale = 10.0**k
    if kind == "equal":
        a, b, c = draw(_unit), draw(_unit), draw(_unit)
        ll, lp, lq = [a * scale] * n, [b * scale] * n, [c * scale] * n
    elif kind == "ties":
        pool = draw(st.lists(_unit, min_size=1, max_size=3))
        ll = [scale * v for v in draw(st.lists(st.sampled_from(pool), min_size=n, max_size=n))]
        lp = [draw(_unit)] * n
        lq = [draw(_unit)] * n
    else:
        ll = [scale * v for v in draw(st.lists(_unit, min_size=n, max_size=n))]
        lp = [scale * v for v in draw(st.lists(_unit, min_size=n, max_size=n))]
        lq = [scale * v for v in draw(st.lists(_unit, min_size=n, max_size=n))]
        if kind == "dominant":
            j = draw(st.integers(0, n - 1))
            ll[j] = ll[j] + draw(st.floats(5.0, 2000.0, width=32))
    if kind != "equal" and draw(st.booleans()):
        m = draw(st.integers(1, n - 1))
        idx = draw(st.lists(st.integers(0, n - 1), min_size=m, max_size=m, unique=True))
        which = draw(st.sampled_from(["ll", "lp"]))
        for i in idx:
            if which == "ll":
                ll[i] = float("-inf")
            else:
                lp[i] = float("-inf")
    shift = draw(st.floats(-1e5, 1e5, allow_nan=False, width=32))
    return {
        "ns": ns, "width": width, "n": n, "kind": kind,
        "ll": ll, "lp": lp, "lq": lq,
        "shift": shift,
        "perm_seed": draw(st.integers(0, 2**31 - 1)),
        "rej_seed": draw(st.integers(0, 2**31 - 1)),
    }


def cases(tier):
    return _case()


def _vec(v):
    return np.array([float(t) for t in v], dtype=np.float64)


def _f(a):
    return float(env.to_np(a))


def _build(case, ll, lp, lq, x=None):
    from aspire.samples import Samples

    xp = env.xp_of(case["ns"])
    dt = env.native_dtype(case["ns"], case["width"])
    n = len(ll)
    if x is None:
        x = np.stack([np.arange(n, dtype=np.float64), -np.arange(n, dtype=np.float64)], axis=1)
    return Samples(x=x, log_likelihood=ll, log_prior=lp, log_q=lq, xp=xp, dtype=dt)


def _functionals(case, ctx, S, tag):
    """Check every weight functional of one sample set against the reference; return ref values."""
    n = len(S.x)
    eps = refmath.eps_of(case["width"])
    sll = env.to_np(S.log_likelihood).astype(np.float64)
    slp = env.to_np(S.log_prior).astype(np.float64)
    slq = env.to_np(S.log_q).astype(np.float64)
    slw = env.to_np(S.log_w).astype(np.float64)
    for name, arr in (("log_w", S.log_w), ("weights", S.weights)):
        if env.width_of(arr) != case["width"]:
            ctx.fail(f"{tag}dtype", f"{name} has dtype {arr.dtype}, sample set is {case['width']}", case)

    # (a) elementwise log-weights
    with np.errstate(all="ignore"):
        ref_w = sll + slp - slq
        mag = np.where(np.isfinite(sll), np.abs(sll), 0) + np.where(np.isfinite(slp), np.abs(slp), 0) + np.abs(slq)
    fin = np.isfinite(ref_w)
    if not np.array_equal(np.isneginf(ref_w), np.isneginf(slw)) or np.isnan(slw).any():
        ctx.fail(f"{tag}log_w", "-inf/NaN pattern of log_w differs from ll+lp-lq", case)
    # absolute floor: sub-normal inputs may be flushed to zero by torch / XLA arithmetic
    bad = np.abs(slw[fin] - ref_w[fin]) > 4 * eps * mag[fin] + (1e-36 if case["width"] == "float32" else 1e-300)
    if bad.any():
        i = int(np.flatnonzero(fin)[np.argmax(bad)])
        ctx.fail(f"{tag}log_w", f"log_w[{i}]={slw[i]!r} but ll+lp-lq={ref_w[i]!r}", case, index=i)

    mx = float(np.max(slw))
    # (b) log evidence
    ref_lz = refmath.lse(slw) - math.log(n)
    tol_lz = 8 * eps * (abs(mx) + math.log(n) + 1) + n * eps
    lz = _f(S.log_evidence)
    if not math.isfinite(lz) or abs(lz - ref_lz) > tol_lz:
        ctx.fail(f"{tag}log_evidence", f"log_evidence={lz!r}, reference log-mean-exp={ref_lz!r}, tol={tol_lz:.3g}", case)

    # (c) ESS
    ref_ess = refmath.ess(slw)
    rtol = 8 * n * eps + 16 * eps
    e = _f(S.effective_sample_size)
    if not math.isfinite(e) or abs(e - ref_ess) > rtol * ref_ess:
        ctx.fail(f"{tag}ess", f"ESS={e!r}, reference (sum w)^2/sum w^2={ref_ess!r}", case)
    if e < 1 - rtol or e > n * (1 + rtol):
        ctx.fail(f"{tag}ess_range", f"ESS={e!r} outside [1,{n}]", case)
    eff = _f(S.efficiency)
    if abs(eff - e / n) > 8 * eps * (e / n):
        ctx.fail(f"{tag}efficiency", f"efficiency={eff!r} but ESS/N={e / n!r}", case)

    # (d) relative error of the evidence
    ref_err = refmath.rel_evidence_error(slw)
    err = _f(S.log_evidence_error)
    if not math.isfinite(err):
        ctx.fail(f"{tag}log_evidence_error_finite",
                 f"log_evidence_error={err!r} (reference {ref_err!r}); max|log_w|={np.max(np.abs(slw[np.isfinite(slw)])):.4g}",
                 case, max_log_w=mx, min_log_w=float(np.min(slw[np.isfinite(slw)])))
    elif abs(err - ref_err) > rtol * ref_err + 16 * n * eps:
        ctx.fail(f"{tag}log_evidence_error", f"log_evidence_error={err!r}, reference={ref_err!r}", case)

    # (e) scaled weights
    sw = env.to_np(S.scaled_weights).astype(np.float64)
    r = slw - mx
    with np.errstate(all="ignore"):
        ref_sw = np.exp(r)
    tiny = 1e-36 if case["width"] == "float32" else 1e-300
    rr = np.where(np.isfinite(r), np.abs(r), 0.0)
    bad = np.abs(sw - ref_sw) > (32 * eps + 2 * eps * rr) * ref_sw + tiny
    if bad.any():
        i = int(np.argmax(bad))
        ctx.fail(f"{tag}scaled_weights", f"scaled_weights[{i}]={sw[i]!r}, reference exp(log_w-max)={ref_sw[i]!r}", case)
    return {"lz": lz, "ess": e, "err": err, "tol_lz": tol_lz, "rtol": rtol, "slw": slw, "mag": mag}


def run_case(case, ctx):
    from aspire import utils

    ll, lp, lq = _vec(case["ll"]), _vec(case["lp"]), _vec(case["lq"])
    n = len(ll)
    eps = refmath.eps_of(case["width"])
    S = _build(case, ll, lp, lq)
    base = _functionals(case, ctx, S, "")
    slw = base["slw"]

    # helpers used by the SMC schedule, on the same stored vector
    lse_val = _f(utils.logsumexp(S.log_w))
    ref = refmath.lse(slw)
    if not math.isfinite(lse_val) or abs(lse_val - ref) > 8 * eps * (abs(float(np.max(slw))) + 1) + n * eps:
        ctx.fail("utils.logsumexp", f"logsumexp={lse_val!r}, reference={ref!r}", case)
    e2 = _f(utils.effective_sample_size(S.log_w))
    ref_e = refmath.ess(slw)
    amax = float(np.max(np.abs(slw[np.isfinite(slw)])))
    # the helper combines two un-shifted log-sums of magnitude ~max|log_w|: their rounding enters the ratio
    if not math.isfinite(e2) or abs(e2 - ref_e) > (base["rtol"] + 16 * eps * (amax + 1)) * ref_e:
        ctx.fail("utils.effective_sample_size", f"ESS helper={e2!r}, reference={ref_e!r}", case)

    # permutation invariance
    perm = np.random.default_rng(case["perm_seed"]).permutation(n)
    P = _build(case, ll[perm], lp[perm], lq[perm])
    pf = _functionals(case, ctx, P, "perm:")
    if abs(pf["lz"] - base["lz"]) > 2 * base["tol_lz"]:
        ctx.fail("perm:invariance", f"log_evidence changed under permutation: {base['lz']!r} -> {pf['lz']!r}", case)
    if abs(pf["ess"] - base["ess"]) > 2 * base["rtol"] * base["ess"]:
        ctx.fail("perm:invariance", f"ESS changed under permutation: {base['ess']!r} -> {pf['ess']!r}", case)
    if math.isfinite(base["err"]) and math.isfinite(pf["err"]):
        if abs(pf["err"] - base["err"]) > 2 * (base["rtol"] * base["err"] + 16 * n * eps):
            ctx.fail("perm:invariance", f"relative error changed under permutation: {base['err']!r} -> {pf['err']!r}", case)

    # constant shift of every log-likelihood
    c = float(case["shift"])
    T = _build(case, ll + c, lp, lq)
    tf = _functionals(case, ctx, T, "shift:")
    delta = float(np.max(4 * eps * (abs(c) + base["mag"])))
    if abs(tf["lz"] - (base["lz"] + c)) > base["tol_lz"] + tf["tol_lz"] + 2 * delta:
        ctx.fail("shift:log_evidence", f"log_evidence {base['lz']!r} -> {tf['lz']!r} after adding c={c!r}", case)
    if abs(tf["ess"] - base["ess"]) > (math.expm1(4 * delta) + 2 * base["rtol"]) * base["ess"]:
        ctx.fail("shift:ess", f"ESS {base['ess']!r} -> {tf['ess']!r} after adding c={c!r}", case)

    # a selection of a weighted set is again a weighted set: its ESS / efficiency / scaled weights must be the
    # functionals of ITS rows (the evidence is carried from the parent by design, so it is not re-checked here)
    g = np.random.default_rng(case["perm_seed"])
    picks = [g.integers(0, n, size=n), np.full(n, int(np.argmax(slw))), g.integers(0, n, size=max(1, n // 2))]
    if n > 2:
        picks.append(slice(0, n, 2))
    for pick in picks:
        sub = S[pick]
        sw = env.to_np(sub.log_w).astype(np.float64)
        if np.isneginf(sw).all():
            continue  # all-zero weights: functionals undefined
        if not np.array_equal(sw, slw[pick], equal_nan=True):
            ctx.fail("select:log_w", "log_w of a selection is not the selection of log_w", case)
            continue
        ref_e = refmath.ess(sw)
        e = _f(sub.effective_sample_size)
        m = len(sw)
        rt = 8 * m * eps + 16 * eps
        if not math.isfinite(e) or abs(e - ref_e) > rt * ref_e:
            ctx.fail("select:ess", f"ESS of a selection ({'slice' if isinstance(pick, slice) else 'index array of length %d' % len(pick)}) is {e!r}; "
                                   f"(sum w)^2/sum w^2 of its own rows is {ref_e!r}", case)
        eff = _f(sub.efficiency)
        if abs(eff - e / m) > 8 * eps * (e / m):
            ctx.fail("select:efficiency", f"efficiency of a selection {eff!r} != ESS/N = {e / m!r}", case)

    # rejection sampling against a generator the harness can replay
    u = np.random.default_rng(case["rej_seed"]).uniform(size=n)
    R = S.rejection_sample(rng=np.random.default_rng(case["rej_seed"]))
    # drawing from a weighted set is a read-only operation: the set (and a parent it was sliced from) must be unchanged afterwards
    after = env.to_np(S.log_w).astype(np.float64)
    if not np.array_equal(after, slw, equal_nan=True):
        ctx.fail("rejection:mutates-set", f"rejection_sample changed the stored log_w of the set it was called on (max change "
                                          f"{float(np.nanmax(np.abs(np.where(np.isfinite(after - slw), after - slw, 0)))):.3g})", case)
    if n > 2:
        sub = S[0:n - 1]
        sub.rejection_sample(rng=np.random.default_rng(case["rej_seed"] + 1))
        if not np.array_equal(env.to_np(S.log_w).astype(np.float64), slw, equal_nan=True):
            ctx.fail("rejection:mutates-parent", "rejection_sample on a slice changed the log_w of the parent set", case)
    lz_after = _f(S.log_evidence)
    if not (lz_after == base["lz"] or (math.isnan(lz_after) and math.isnan(base["lz"]))):
        ctx.fail("rejection:mutates-set", "rejection_sample changed the stored log_evidence", case)
    with np.errstate(all="ignore"):
        margin = (slw - float(np.max(slw))) - np.log(u)
    amb = np.abs(margin) <= 8 * eps * (np.abs(np.log(u)) + 1)
    keep = margin > 0
    rx = env.to_np(R.x).astype(np.float64)
    got = set(int(round(v)) for v in rx[:, 0].tolist()) if len(rx) else set()
    must = set(np.flatnonzero(keep & ~amb).tolist())
    may = set(np.flatnonzero(keep | amb).tolist())
    if not (must <= got <= may) or len(got) != len(rx):
        ctx.fail("rejection:rows", f"kept rows {sorted(got)[:20]} but u<w/wmax holds exactly for {sorted(must)[:20]}", case)
    if len(rx):
        ids = np.array([int(round(v)) for v in rx[:, 0]])
        sx = env.to_np(S.x).astype(np.float64)
        ok = (
            np.array_equal(rx, sx[ids])
            and np.array_equal(env.to_np(R.log_likelihood).astype(np.float64), env.to_np(S.log_likelihood).astype(np.float64)[ids])
            and np.array_equal(env.to_np(R.log_prior).astype(np.float64), env.to_np(S.log_prior).astype(np.float64)[ids])
        )
        if not ok:
            ctx.fail("rejection:alignment", "fields of the accepted set are not the same row subset", case)

    fin = slw[np.isfinite(slw)]
    spread = float(np.max(fin) - np.min(fin)) if len(fin) else 0.0
    has_inf = bool(np.isneginf(slw).any())
    tie = len(np.unique(fin)) < len(fin)
    not_equal = has_inf or spread > 0
    labels = [case["ns"], case["width"], case["kind"]]
    if has_inf:
        labels.append("has-neginf")
    if spread > 50:
        labels.append("range>50")
    if float(np.max(np.abs(fin))) > 709:
        labels.append("|log_w|>709")
    return {"nontrivial": bool(not_equal and (has_inf or spread > 50 or tie)), "labels": labels}
