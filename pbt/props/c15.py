"""C15 - array-namespace and dtype conversions preserve values and precision."""
from __future__ import annotations

import itertools
import pickle

import numpy as np
from hypothesis import strategies as st

from .. import env

ID = "C15"
LEVEL = "exploration"
BUDGET = {"quick": 320, "thorough": 18000}
SHARDS = {"quick": 8, "thorough": 16}
RULE = (
    "(1) exhaustive grid, run in full on every invocation: sample class (3) x source namespace (3) x target namespace (3) x "
    "source width (2) x dtype request {none, 'float32', 'float64', native float32, native float64} x optional-field subset (8) "
    "x route {to_namespace, from_samples, to_numpy} with values including +-inf, -0.0, sub-normals and values not representable "
    "in float32; plus every dtype spelling through resolve_dtype / convert_dtype / encode->decode for every namespace. "
    "(2) generated: the same conversions with Hypothesis-drawn values and shapes; importance / SMC runs for namespace x requested "
    "dtype x output namespace (dtype of the returned set, of every history population, of checkpointed and restored "
    "populations); proposal outputs of both flow back-ends consumed by sample sets of every namespace. "
    "Oracle: conversion succeeds, values equal bitwise after up-casting to float64 (or equal to the correctly rounded float32 "
    "when a narrower width is requested), None stays None, beta / parameters kept, width preserved or equal to the request, "
    "result lives in the target namespace. Non-trivial = source namespace != target namespace, or a non-default dtype."
)
RULE += " " + ("The grid also holds, for weighted Samples, a selection that carries its parent's evidence (which must survive the conversion) and, for every class, convert - attach the densities - convert histories on one object.")
RULE += " " + ('Sampler results: log_evidence / log_evidence_error must have the requested width too; half of the flow cases use a proposal that was written to a file and loaded into a new instance.')
ASSUMPTIONS = [
    "jax runs with jax_enable_x64=True (as in the repository's own tests); without it JAX cannot hold float64",
    "kernel packages are harness doubles for the sampler-level part",
    "dtype-helper spellings: case-insensitive strings with or without a module prefix, and native dtype objects of any of the "
    "three namespaces (numpy.dtype, numpy scalar types, torch.dtype, jax.numpy scalar types)",
]

NS = ["numpy", "torch", "jax"]
WIDTHS = ["float32", "float64"]
CLASSES = ["BaseSamples", "Samples", "SMCSamples"]
FIELDSETS = [c for r in range(4) for c in itertools.combinations(("log_likelihood", "log_prior", "log_q"), r)]
REQUESTS = ["none", "str32", "str64", "native32", "native64"]
ROUTES = ["to_namespace", "from_samples", "to_numpy"]

SPECIAL = [0.0, -0.0, 1.0, -1.5, np.inf, -np.inf, 1e-45, 1e-310, 16777217.0, 0.1, 1e38, 1e300, -123456.789]


def refmath_eps(width):
    from .. import refmath

    return refmath.eps_of(width)


def _cls(name):
    import aspire.samples as S

    return getattr(S, name)


def _request(req, dst):
    if req == "none":
        return None, None
    w = "float32" if req.endswith("32") else "float64"
    if req.startswith("str"):
        return w, w
    return env.native_dtype(dst, w), w


def _values(seed, n, d, width, special=True):
    g = np.random.default_rng(seed)
    npdt = np.float32 if width == "float32" else np.float64
    with np.errstate(all="ignore"):
        x = (g.normal(size=(n, d)) * 10.0 ** g.integers(-3, 6, size=(n, d))).astype(npdt)
        vals = {}
        for f in ("log_likelihood", "log_prior", "log_q"):
            v = (g.normal(size=n) * 100).astype(npdt)
            vals[f] = v
        if special:
            sp = np.array(SPECIAL, dtype=np.float64).astype(npdt)
            k = min(len(sp), n)
            x[:k, 0] = sp[:k]
            vals["log_likelihood"][:k] = np.where(np.isposinf(sp[:k]), 1.0, sp[:k])
            vals["log_prior"][:k] = np.where(np.isposinf(sp[::-1][:k]), 2.0, sp[::-1][:k])
    return x, vals


def _convert_cell(case, ctx):
    """One conversion; case is a JSON-able dict."""
    C = _cls(case["cls"])
    src, dst = case["src"], case["dst"]
    xs, xd = env.xp_of(src), env.xp_of(dst)
    x, vals = _values(case["seed"], case["n"], case["d"], case["width"], case.get("special", True))
    if "x" in case:
        npdt = np.float32 if case["width"] == "float32" else np.float64
        x = np.array(case["x"], dtype=np.float64).astype(npdt).reshape(case["n"], case["d"])
    kw = {f: vals[f] for f in case["fields"]}
    params = [f"p{i}" for i in range(case["d"])][::-1]
    if case["cls"] == "SMCSamples":
        kw["beta"] = 0.375
    weighted = case["cls"] == "Samples" and len(case["fields"]) == 3
    if case["cls"] in ("Samples", "SMCSamples") and not weighted:
        kw["log_evidence"] = -7.25
        kw["log_evidence_error"] = 0.125
    if case.get("attach_later"):
        # object history: the set is converted once while it only holds x, then the densities are assigned (as the samplers do)
        later = {f: kw.pop(f) for f in list(case["fields"])}
        s = C(x=x, parameters=params, xp=xs, dtype=env.native_dtype(src, case["width"]), **kw)
        s.to_numpy()
        s.to_namespace(xd)
        for f, v in later.items():
            setattr(s, f, s.array_to_namespace(v))
    else:
        s = C(x=x, parameters=params, xp=xs, dtype=env.native_dtype(src, case["width"]), **kw)
    carried = None
    if weighted and case.get("selection"):
        # a selection of a weighted set carries its parent's evidence (it is not the evidence of the selected rows)
        s = s[0 : case["n"] : 2]
        carried = (float(env.to_np(s.log_evidence)), float(env.to_np(s.log_evidence_error)))
    dreq, wreq = _request(case["req"], dst)
    route = case["route"]
    what = f"{route}"
    if route == "to_namespace":
        out = s.to_namespace(xd) if dreq is None else s.to_namespace(xd, dtype=dreq)
    elif route == "from_samples":
        extra = {"beta": 0.375} if case["cls"] == "SMCSamples" else {}
        out = C.from_samples(s, xp=xd, **extra) if dreq is None else C.from_samples(s, xp=xd, dtype=dreq, **extra)
    elif route == "to_numpy":
        out = s.to_numpy()
    else:
        raise ValueError(route)
    want_w = wreq or case["width"]
    if type(out) is not C:
        ctx.fail(f"{what}:class", f"result is {type(out).__name__}", case)
    for f in ("x", "log_likelihood", "log_prior", "log_q"):
        a = getattr(s, f)
        b = getattr(out, f)
        if (a is None) != (b is None):
            ctx.fail(f"{what}:optional-field", f"{f}: {'None' if a is None else 'present'} became {'None' if b is None else 'present'}", case, field=f)
            continue
        if a is None:
            continue
        mod = type(b).__module__.split(".")[0]
        okmods = {"numpy": ("numpy",), "torch": ("torch",), "jax": ("jax", "jaxlib")}[dst]
        if mod not in okmods:
            ctx.fail(f"{what}:namespace", f"{f} is a {type(b).__module__}.{type(b).__name__}, target namespace {dst}", case, field=f)
        if env.width_of(b) != want_w:
            ctx.fail(f"{what}:width", f"{f} has dtype {b.dtype}; source was {case['width']}, requested {case['req']} => expected {want_w}",
                     case, field=f, got=str(b.dtype), want=want_w)
            continue
        av = env.to_np(a).astype(np.float64)
        bv = env.to_np(b).astype(np.float64)
        if want_w == "float32" and case["width"] == "float64":
            with np.errstate(all="ignore"):
                av = av.astype(np.float32).astype(np.float64)
        same = av.shape == bv.shape and np.array_equal(av, bv, equal_nan=True) and np.array_equal(np.signbit(av), np.signbit(bv))
        if not same:
            # sub-normals may be flushed by the target framework when a cast is involved
            with np.errstate(all="ignore"):
                tiny = np.abs(av) < (1.2e-38 if "float32" in (want_w, case["width"]) else 2.3e-308)
            if av.shape == bv.shape and np.array_equal(np.where(tiny, 0.0, av), np.where(tiny, 0.0, bv), equal_nan=True):
                continue
            ctx.fail(f"{what}:values", f"{f} changed value in the conversion", case, field=f)
    if list(out.parameters) != params:
        ctx.fail(f"{what}:parameters", f"parameters {out.parameters!r} != {params!r}", case)
    if out.xp.__name__ != xd.__name__ and route != "to_numpy":
        ctx.fail(f"{what}:xp", f"result.xp is {out.xp.__name__}, expected {xd.__name__}", case)
    if case["cls"] == "SMCSamples" and out.beta != 0.375:
        ctx.fail(f"{what}:beta", f"beta {out.beta!r} != 0.375", case)
    # from_samples copy-constructs from the per-sample fields only; evidence is a to_namespace / to_numpy matter
    if case["cls"] in ("Samples", "SMCSamples") and not weighted and route != "from_samples":
        for f, v in (("log_evidence", -7.25), ("log_evidence_error", 0.125)):
            g = getattr(out, f)
            if g is None or float(env.to_np(g)) != v:
                ctx.fail(f"{what}:{f}", f"{f} became {g!r}, was {v!r}", case, field=f)
    if carried is not None and route != "from_samples":
        tol = 8 * refmath_eps("float32" if "float32" in (want_w, case["width"]) else "float64")
        for f, v in zip(("log_evidence", "log_evidence_error"), carried):
            g = getattr(out, f)
            gv = None if g is None else float(env.to_np(g))
            if gv is None or not (gv == v or abs(gv - v) <= tol * (abs(v) + 1)):
                ctx.fail(f"{what}:carried-{f}", f"{f} carried by a selection of a weighted set was {v!r}, is {gv!r} after the conversion "
                                                f"(recomputed from the selected rows instead of carried)", case, field=f)
    return {"nontrivial": src != dst or case["req"] != "none",
            "labels": [route, f"{src}->{dst}", case["cls"], case["width"], "req:" + case["req"]] + (["carried-evidence"] if carried else [])}


# ---- dtype helper spellings --------------------------------------------------------------------

def _spellings():
    import jax.numpy as jnp
    import torch

    out = []
    for w in WIDTHS:
        out += [("str", w), ("STR", w.upper()), ("Str", w.capitalize()), ("torch.str", "torch." + w), ("numpy.str", "numpy." + w),
                ("jnp.str", "jnp." + w), ("np.dtype", np.dtype(w)), ("np.type", getattr(np, w)), ("torch.dtype", getattr(torch, w)),
                ("jnp.type", getattr(jnp, w)), ("jnp.dtype", jnp.dtype(w))]
    return out


def _helper_cell(case, ctx):
    from aspire import utils

    kind, dst, w, fn = case["spelling"], case["dst"], case["width"], case["fn"]
    value = dict(((k, str(v) if isinstance(v, str) else v) for k, v in [(kk, vv) for kk, vv in _spellings() if True]))  # unused
    spell = [v for k, v in _spellings() if k == kind and (w in str(v).lower())][0]
    xd = env.xp_of(dst)
    own = {"np.dtype": "numpy", "np.type": "numpy", "torch.dtype": "torch", "jnp.type": "jax", "jnp.dtype": "jax"}.get(kind)
    if fn == "resolve":
        if own is not None and own != dst and not (kind in ("np.dtype", "jnp.dtype", "np.type", "jnp.type") and dst in ("numpy", "jax")):
            return {"nontrivial": False, "labels": ["helper-skip(foreign native dtype is convert_dtype's job)"]}
        res = utils.resolve_dtype(spell, xd)
    elif fn == "convert":
        res = utils.convert_dtype(spell, xd)
    else:
        native = env.native_dtype(dst, w)
        enc = utils.encode_dtype(xd, native)
        # through HDF5-like flattening: values are str / bool
        res = utils.decode_dtype(xd, enc)
    try:
        arr = xd.asarray(np.array([1.5, 16777217.0]), dtype=res)
    except Exception as e:  # noqa: BLE001
        ctx.fail(f"helper:{fn}:unusable", f"{fn}({spell!r}, {dst}) -> {res!r}, which {dst} does not accept as a dtype ({type(e).__name__}: {e})", case)
        return {"nontrivial": True, "labels": ["helper:" + fn, "known-unusable"]}
    if env.width_of(arr) != w:
        ctx.fail(f"helper:{fn}", f"{fn}({spell!r}, {dst}) -> {res!r} gives arrays of {arr.dtype}, expected {w}", case)
    return {"nontrivial": True, "labels": ["helper:" + fn, "spelling:" + kind, dst]}


def extra(tier, ctx, seed):
    n_conv = 0
    for cls, src, dst, width, req, fields, route in itertools.product(CLASSES, NS, NS, WIDTHS, REQUESTS, FIELDSETS, ROUTES):
        if route == "to_numpy" and (dst != "numpy" or req != "none"):
            continue
        case = {"part": "convert", "cls": cls, "src": src, "dst": dst, "width": width, "req": req, "fields": list(fields),
                "route": route, "seed": int(seed), "n": 14, "d": 2}
        ctx.cell(case, _convert_cell)
        n_conv += 1
        if cls == "Samples" and len(fields) == 3 and route != "from_samples":
            ctx.cell(dict(case, selection=True, special=False), _convert_cell)
            n_conv += 1
        if len(fields) == 3 and route != "from_samples" and req == "none":
            ctx.cell(dict(case, attach_later=True), _convert_cell)
            n_conv += 1
    n_help = 0
    kinds = sorted({k for k, _ in _spellings()})
    for kind, dst, w, fn in itertools.product(kinds, NS, WIDTHS, ["resolve", "convert", "encode-decode"]):
        if fn == "encode-decode" and kind != "str":
            continue
        case = {"part": "helper", "spelling": kind, "dst": dst, "width": w, "fn": fn}
        ctx.cell(case, _helper_cell)
        n_help += 1
    return {"exhaustive_grid_conversions": n_conv, "exhaustive_helper_cells": n_help, "exhaustive": True,
            "exhaustive_note": "refers to the finite grids the property quantifies over: class x source ns x target ns x width x dtype request x "
                               "field subset x route, and dtype spelling x namespace x helper - both enumerated completely on every run; "
                               "the generated part (values, shapes, sampler runs, flow outputs) is sampled, not exhaustive"}


# ---- generated part ----------------------------------------------------------------------------

@st.composite
def _case(draw):
    part = draw(st.sampled_from(["convert", "convert", "sampler", "sampler", "flow"]))
    if part == "convert":
        n = draw(st.integers(1, 20))
        d = draw(st.integers(1, 4))
        width = draw(st.sampled_from(WIDTHS))
        route = draw(st.sampled_from(ROUTES))
        dst = "numpy" if route == "to_numpy" else draw(st.sampled_from(NS))
        xs = draw(st.lists(st.floats(allow_nan=False, width=32 if width == "float32" else 64), min_size=n * d, max_size=n * d))
        return {"part": "convert", "cls": draw(st.sampled_from(CLASSES)), "src": draw(st.sampled_from(NS)), "dst": dst, "width": width,
                "req": "none" if route == "to_numpy" else draw(st.sampled_from(REQUESTS)), "fields": list(draw(st.sampled_from(FIELDSETS))),
                "route": route, "seed": draw(st.integers(0, 2**31 - 1)), "n": n, "d": d, "x": xs, "special": draw(st.booleans())}
    if part == "sampler":
        return {"part": "sampler", "ns": draw(st.sampled_from(NS)), "req": draw(st.sampled_from(REQUESTS)),
                "out": draw(st.sampled_from(["none", "none", "numpy", "torch", "jax"])),
                "sampler": draw(st.sampled_from(["importance", "smc", "smc", "emcee_smc", "minipcn", "emcee"])),
                "n": draw(st.integers(4, 24)), "d": draw(st.integers(1, 3)), "seed": draw(st.integers(0, 2**31 - 1)),
                "n_final": draw(st.sampled_from([None, None, 7, 30])), "pre": draw(st.sampled_from(["none", "default"]))}
    return {"part": "flow", "backend": draw(st.sampled_from(["zuko"] * 24 + ["flowjax"])), "ns": draw(st.sampled_from(NS)),
            "width": draw(st.sampled_from(WIDTHS)), "d": draw(st.integers(1, 3)), "seed": draw(st.integers(0, 10**6)),
            "sampler": draw(st.sampled_from(["wrap", "wrap", "importance", "smc"]))}


def cases(tier):
    return _case()


def _sampler_case(case, ctx):
    import emcee
    import minipcn
    from pbt_flows import AnalyticFlow

    from aspire import Aspire

    ns = case["ns"]
    xp = env.xp_of(ns)
    dreq, wreq = _request(case["req"], ns)
    d = case["d"]

    seen_widths = []

    def log_likelihood(s):
        seen_widths.append(env.width_of(s.x))
        return -0.5 * xp.sum((s.x - 0.3) ** 2, axis=-1)

    def log_prior(s):
        return xp.where(xp.all((s.x > -6) & (s.x < 6), axis=-1), -d * float(np.log(12.0)), -xp.inf)

    flow = AnalyticFlow(d, kind="normal", loc=np.zeros(d), scale=2.0 * np.ones(d), seed=case["seed"])
    a = Aspire(log_likelihood=log_likelihood, log_prior=log_prior, dims=d, parameters=[f"p{i}" for i in range(d)],
               prior_bounds={f"p{i}": [-6.0, 6.0] for i in range(d)}, flow=flow, flow_backend="pbt_analytic", xp=xp, dtype=dreq)
    kw = {"n_samples": case["n"], "sampler": case["sampler"]}
    states = []
    smc = case["sampler"] in ("smc", "emcee_smc")
    if smc:
        kw.update(return_history=True, checkpoint_callback=lambda s: states.append(pickle.dumps(s)), checkpoint_every=1,
                  preconditioning=case["pre"])
        if case["n_final"]:
            kw["n_final_samples"] = case["n_final"]
        frozen = case["sampler"] == "smc" and case["seed"] % 2 == 0
        kw["sampler_kwargs"] = {"n_steps": 2, "step_fn": "frozen" if frozen else "rw"} if case["sampler"] == "smc" else {"nsteps": 2, "progress": False}
        if case["sampler"] == "smc":
            kw["rng"] = np.random.default_rng(case["seed"])
    elif case["sampler"] == "minipcn":
        kw.update(n_steps=3, rng=np.random.default_rng(case["seed"]), preconditioning=case["pre"])
    elif case["sampler"] == "emcee":
        kw.update(nsteps=3, preconditioning=case["pre"])
    out_ns = None if case["out"] == "none" else case["out"]
    if out_ns:
        kw["xp"] = env.xp_of(out_ns)
    np.random.seed(case["seed"] % 2**32)
    minipcn.reset(); emcee.reset()
    res = a.sample_posterior(**kw)
    samples, hist = (res if smc else (res, None))
    labels = ["sampler:" + case["sampler"], ns, "req:" + case["req"], "out:" + case["out"]]

    def chk(obj, where, want_ns):
        for f in ("x", "log_likelihood", "log_prior", "log_q", "log_evidence", "log_evidence_error"):
            v = getattr(obj, f, None)
            if v is None or not hasattr(v, "dtype"):
                continue
            if wreq is not None and env.width_of(v) != wreq:
                ctx.fail("sampler:width", f"{where}.{f} has dtype {v.dtype}; the user requested {case['req']} ({wreq}) [{case['sampler']} on {ns}]",
                         case, where=where.split("[")[0], field=f, sampler=case["sampler"])
            mod = type(v).__module__.split(".")[0]
            if mod not in {"numpy": ("numpy",), "torch": ("torch",), "jax": ("jax", "jaxlib")}[want_ns]:
                ctx.fail("sampler:namespace", f"{where}.{f} is {type(v).__module__}.{type(v).__name__}, expected namespace {want_ns}", case, where=where.split("[")[0])

    chk(samples, "returned", out_ns or ns)
    if smc and case["sampler"] == "smc" and case["seed"] % 2 == 0 and wreq == "float64" and hist is not None:
        # frozen kernel: every particle of every population must still be, bit for bit, a point the proposal emitted
        # (a population that silently passed through a narrower width is rounded)
        emitted = np.concatenate([h[0] for h in flow.handed]).astype(np.float64)
        em = {tuple(r) for r in emitted.tolist()}
        for t, p in enumerate(hist.sample_history):
            rows = env.to_np(p.x).astype(np.float64).tolist()
            lost = [r for r in rows if tuple(r) not in em]
            if lost:
                ctx.fail("sampler:values-rounded", f"history.sample_history[{t}] contains coordinates {lost[0]!r} that are not bit-for-bit a point "
                                                   f"the proposal emitted (float64 requested on {ns}, preconditioning={case['pre']}): "
                                                   f"the population passed through a narrower width", case, pre=case["pre"])
                break
        labels.append("frozen-bitwise")
    if wreq is not None and any(w != wreq for w in seen_widths):
        bad = sorted(set(w for w in seen_widths if w != wreq))
        ctx.fail("sampler:built-population-width", f"{case['sampler']} on {ns}: a population handed to the user's likelihood had dtype {bad}, "
                                                   f"the user requested {wreq}", case, sampler=case["sampler"])
    if hist is not None:
        for t, p in enumerate(hist.sample_history):
            chk(p, f"history.sample_history[{t}]", ns)
        for k, blob in enumerate(states):
            st_ = pickle.loads(blob)
            chk(st_["samples"], f"checkpoint[{k}].samples", ns)
        if states and case["sampler"] == "smc":
            kw2 = dict(kw)
            kw2["resume_from"] = states[0]
            kw2["rng"] = np.random.default_rng(case["seed"])
            kw2.pop("checkpoint_callback"); kw2.pop("checkpoint_every")
            a2 = Aspire(log_likelihood=log_likelihood, log_prior=log_prior, dims=d, parameters=[f"p{i}" for i in range(d)],
                        prior_bounds={f"p{i}": [-6.0, 6.0] for i in range(d)},
                        flow=AnalyticFlow(d, kind="normal", loc=np.zeros(d), scale=2.0 * np.ones(d), seed=case["seed"]),
                        flow_backend="pbt_analytic", xp=xp, dtype=dreq)
            s2, h2 = a2.sample_posterior(**kw2)
            chk(s2, "resumed.returned", out_ns or ns)
            for t, p in enumerate(h2.sample_history):
                chk(p, f"resumed.history.sample_history[{t}]", ns)
            labels.append("resumed")
    return {"nontrivial": case["req"] != "none" or (out_ns is not None and out_ns != ns), "labels": labels}


_FLOWS = {}


def _flow_case(case, ctx):
    from aspire import Aspire
    from aspire.samples import Samples

    ns = case["ns"]
    xp = env.xp_of(ns)
    d = case["d"]
    g = np.random.default_rng(case["seed"])
    data = g.normal(size=(40, d))
    backend = case["backend"]
    w = case["width"]

    def log_likelihood(s):
        return -0.5 * xp.sum(s.x**2, axis=-1)

    def log_prior(s):
        return xp.zeros(s.x.shape[0], dtype=s.x.dtype)

    kwargs = {}
    if backend == "flowjax":
        import jax

        env.jax()
        kwargs["key"] = jax.random.key(case["seed"])
    else:
        kwargs.update(seed=case["seed"], hidden_features=[8], transforms=1)
    a = Aspire(log_likelihood=log_likelihood, log_prior=log_prior, dims=d, parameters=[f"p{i}" for i in range(d)],
               flow_backend=backend, xp=xp, dtype=w, **kwargs)
    fit_kw = {"n_epochs": 1, "batch_size": 40} if backend == "zuko" else {"max_epochs": 1, "batch_size": 40, "show_progress": False}
    a.fit(Samples(data, xp=xp, dtype=w), **fit_kw)
    labels = ["flow:" + backend, ns, w, "use:" + case["sampler"]]
    if case["seed"] % 2:
        # the proposal as a resumed run has it: written to a file and loaded into a new instance
        import os
        import tempfile

        from aspire.utils import AspireFile

        tmp = tempfile.mkdtemp(prefix="c15-")
        try:
            with AspireFile(os.path.join(tmp, "flow.h5"), "w") as h5:
                a.save_flow(h5)
            a = Aspire(log_likelihood=log_likelihood, log_prior=log_prior, dims=d, parameters=[f"p{i}" for i in range(d)],
                       flow_backend=backend, xp=xp, dtype=w, **kwargs)
            with AspireFile(os.path.join(tmp, "flow.h5"), "r") as h5:
                a.load_flow(h5)
        finally:
            import shutil

            shutil.rmtree(tmp, ignore_errors=True)
        labels.append("reloaded-flow")
    if case["sampler"] == "wrap":
        x, lq = a.flow.sample_and_log_prob(6)
        s = Samples(x, log_q=lq, xp=xp)
        s2 = Samples(x, log_q=a.flow.log_prob(x), xp=xp)
        for obj in (s, s2):
            if obj.log_q is None or len(obj.log_q) != 6:
                ctx.fail("flow:wrap", "proposal output could not be wrapped", case)
    elif case["sampler"] == "importance":
        out = a.sample_posterior(n_samples=8, sampler="importance")
        if env.width_of(out.x) != w:
            ctx.fail("flow:width", f"importance samples are {out.x.dtype}, requested {w}", case)
    else:
        import minipcn

        minipcn.reset()
        out = a.sample_posterior(n_samples=8, sampler="smc", rng=np.random.default_rng(case["seed"]), n_steps=2, adaptive=False,
                                 sampler_kwargs={"n_steps": 1, "step_fn": "rw"}, preconditioning="none")
        if env.width_of(out.x) != w:
            ctx.fail("flow:width", f"SMC samples are {out.x.dtype}, requested {w}", case)
    return {"nontrivial": True, "labels": labels}


def run_case(case, ctx):
    part = case["part"]
    if part == "convert":
        return _convert_cell(case, ctx)
    if part == "helper":
        return _helper_cell(case, ctx)
    if part == "sampler":
        return _sampler_case(case, ctx)
    return _flow_case(case, ctx)
