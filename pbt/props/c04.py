"""C04 - parameter transforms are bijections with exact log-Jacobians."""
from __future__ import annotations

import math
from fractions import Fraction

import numpy as np
from hypothesis import strategies as st

from .. import env, refmath

ID = "C04"
LEVEL = "exploration"
BUDGET = {"quick": 2000, "thorough": 180000}
SHARDS = {"quick": 8, "thorough": 16}
RULE = (
    "case = transform class (Logit, Probit, Periodic, Affine, Identity, Composite with every on/off combination of "
    "periodic / bounded logit|probit / affine (periodic names listed in any order; optionally fitted before on data of another scale), FlowTransform) x namespace x width x bounds lower=m*10^a, width=10^b "
    "(a,b in [-3,6], and occasionally all widths 1e+-80 (float64) / 1e+-10 (float32), subject to the constructor's own representability check; written as floats or, where integral, as Python ints; dtype declared, or for single classes left to the class default) x batch (1..64 rows, 1..5 columns) x points "
    "placed by unit-interval coordinate u (uniform, log-spaced towards either bound down to the clipping margin, exactly "
    "eps and 1-eps, midpoint, and inside the margin where only finiteness is asserted; for wrapping any real up to 1e6 "
    "periods incl. exact multiples). Oracles: round trip, closed-form float64 log-Jacobian from the stored values, central "
    "finite differences of the implementation's own forward (float64), inverse log-Jacobian = -forward, exact rational "
    "reference for wrapping, fit == forward bitwise, composite == manual composition of the public part classes. "
    "Non-trivial = a point with min(u,1-u)<0.01 OR |lower|/width>100 OR a composite with >=2 active parts."
)
RULE += " " + ('Composite columns may be bounded on one side only (they must be left untouched); affine data scales down to 1e-8.')
ASSUMPTIONS = [
    "round-trip tolerance 64*eps*(|lower|+|upper|+width) per coordinate, nothing but finiteness asserted inside the clipping margin",
    "log-Jacobian tolerance per coordinate: logit 8*eps/min(u,1-u)+8*eps*(|log u|+|log(1-u)|+|log width|+1); probit "
    "32*eps*(1+|y|)/min(u,1-u)+16*eps*(y^2+|log width|+2) (conditioning of the maps next to a bound)",
    "finite-difference route only for float64 NumPy and points with min(u,1-u) > 10*eps_clip (tolerance 1e-5 per coordinate)",
    "wrapping: compared modulo the period with tolerance 8*eps*(|x|+|lower|+width); equality with `upper` is accepted only "
    "when the exact result is within that tolerance of a period boundary",
]

CLASSES = ["logit", "probit", "periodic", "affine", "identity", "composite", "composite", "flowtransform"]


@st.composite
def _bounds(draw, d, width="float64"):
    lo, hi = [], []
    if draw(st.integers(0, 7)) == 0:
        # every width extreme in the same direction: each is representable, their product is not
        b = draw(st.sampled_from([-80, 80] if width == "float64" else [-10, 10]))
        for _ in range(d):
            lo.append(0.0 if b < 0 else draw(st.sampled_from([0.0, -1.0, 2.5])))
            hi.append(lo[-1] + 10.0**b * draw(st.sampled_from([1.0, 2.0, 0.37])))
        return lo, hi
    for _ in range(d):
        a = draw(st.integers(-3, 6))
        b = draw(st.integers(-3, 6))
        m = draw(st.sampled_from([0.0, 1.0, -1.0, 2.5, -7.25, 0.1, -0.3]))
        l = m * 10.0**a
        lo.append(l)
        hi.append(l + 10.0**b * draw(st.sampled_from([1.0, 1.0, 2.0, 6.283185307179586, 0.37])))
    return lo, hi


_ucoord = st.one_of(
    st.floats(0.0, 1.0),
    st.floats(0.0, 1.0),
    st.builds(lambda k, s: s * 10.0**-k, st.integers(1, 12), st.floats(1.0, 9.99)),
    st.builds(lambda k, s: 1.0 - s * 10.0**-k, st.integers(1, 12), st.floats(1.0, 9.99)),
    st.sampled_from(["eps", "1-eps", 0.5, 0.0, 1.0]),
)


@st.composite
def _case(draw):
    cls = draw(st.sampled_from(CLASSES))
    ns = draw(st.sampled_from(["numpy", "torch", "jax"]))
    width = draw(st.sampled_from(["float32", "float64"]))
    d = draw(st.integers(1, 5))
    rows = draw(st.one_of(st.integers(1, 4), st.integers(1, 64)))
    eps_clip = draw(st.sampled_from([1e-6, 1e-6, 1e-4, 1e-2] + ([1e-10] if width == "float64" else [])))
    lo, hi = draw(_bounds(d, width))
    case = {"cls": cls, "ns": ns, "width": width, "d": d, "rows": rows, "eps_clip": eps_clip, "lower": lo, "upper": hi}
    # bounds written as Python ints where integral; dtype left to the class default
    case["int_bounds"] = draw(st.booleans())
    # (single classes only: a composite without a declared dtype may work wider than its separately built parts; torch takes
    # logarithms of integer tensors in float32, so float64 accuracy without a declared dtype is asked of NumPy and JAX only)
    case["dtype_default"] = ((width == "float32" or ns != "torch") and cls not in ("composite", "flowtransform")
                             and draw(st.booleans()))
    if cls in ("composite", "flowtransform"):
        kinds = draw(st.lists(st.sampled_from(["bounded", "bounded", "periodic", "free", "half"] if cls == "composite" else ["bounded", "bounded", "free", "half"]),
                              min_size=d, max_size=d))
        case["kinds"] = kinds
        case["b2u"] = draw(st.booleans()) if "bounded" not in kinds else draw(st.sampled_from([True, True, False]))
        case["bounded_transform"] = draw(st.sampled_from(["logit", "probit"]))
        case["affine"] = draw(st.booleans())
        if case["affine"]:
            case["rows"] = rows = max(rows, 3)
    if cls == "affine":
        case["rows"] = rows = max(rows, 3)
    # histories on one object: a transform fitted before on data of another scale; periodic names listed in another order
    case["refit"] = draw(st.booleans())
    case["refit_scale"] = draw(st.sampled_from([1e-3, 0.1, 7.0, 300.0]))
    case["order_seed"] = draw(st.integers(0, 2**31 - 1))
    # points: unit coordinates; for periodic columns any real number of periods
    us = []
    for _ in range(rows):
        us.append([draw(_ucoord) for _ in range(d)])
    case["u"] = us
    if cls == "periodic" or "periodic" in case.get("kinds", []):
        case["turns"] = [[draw(st.one_of(st.integers(-3, 3), st.integers(-10**6, 10**6))) for _ in range(d)] for _ in range(rows)]
    if cls in ("affine",) or case.get("affine") or "free" in case.get("kinds", []) or "half" in case.get("kinds", []):
        case["free_seed"] = draw(st.integers(0, 2**31 - 1))
        case["free_scale"] = draw(st.sampled_from([1e-3, 1.0, 50.0, 1e4, 1e-8]))
        case["free_shift"] = draw(st.sampled_from([0.0, 1.0, -30.0, 1e3]))
    return case


def cases(tier):
    return _case()


# ---------------------------------------------------------------------------------------------

def _points(case):
    """float64 points from unit coordinates (cast to the requested dtype by the caller)."""
    lo = np.array(case["lower"], dtype=np.float64)
    hi = np.array(case["upper"], dtype=np.float64)
    e = case["eps_clip"]
    u = np.array([[e if v == "eps" else (1 - e) if v == "1-eps" else float(v) for v in row] for row in case["u"]], dtype=np.float64)
    x = lo + (hi - lo) * u
    x = np.minimum(np.maximum(x, lo), hi)
    return x, u


def _arr(case, a):
    xp = env.xp_of(case["ns"])
    return xp.asarray(np.asarray(a, dtype=np.float64), dtype=env.native_dtype(case["ns"], case["width"]))


def _np64(a):
    return env.to_np(a).astype(np.float64)


def _finite(ctx, case, name, *arrs):
    for a in arrs:
        if not np.isfinite(_np64(a)).all():
            ctx.fail(f"{name}:nonfinite", f"{name} produced non-finite output for in-bounds input", case)
            return False
    return True


def _bounded_checks(case, ctx, t, kind, x_arr, tag):
    """Logit / Probit: all oracles. Returns nontrivial flag."""
    eps = refmath.eps_of(case["width"])
    e = float(case["eps_clip"])
    lo = _np64(t.lower)
    hi = _np64(t.upper)
    den = hi - lo
    x = _np64(x_arr)
    y_i, lj_i = t.forward(x_arr)
    if not _finite(ctx, case, f"{tag}forward", y_i, lj_i):
        return False
    x_back, lji_i = t.inverse(y_i)
    if not _finite(ctx, case, f"{tag}inverse", x_back, lji_i):
        return False
    y, lj, xb, lji = _np64(y_i), _np64(lj_i), _np64(x_back), _np64(lji_i)
    if not case.get("dtype_default") and (env.width_of(y_i) != case["width"] or env.width_of(x_back) != case["width"]):
        ctx.fail(f"{tag}dtype", f"forward/inverse outputs are {y_i.dtype}/{x_back.dtype} for {case['width']} input", case)
    u = (x - lo) / den
    uc = np.clip(u, e, 1 - e)
    p = np.minimum(uc, 1 - uc)
    inside = (u >= e) & (u <= 1 - e)
    # reference forward
    if kind == "logit":
        y_ref, lj_ref = refmath.logit_fwd(x, lo, hi, e)
        t_y = 8 * eps * (1 / p + np.abs(y_ref) + 1)
        t_lj = (8 * eps / p + 8 * eps * (np.abs(np.log(uc)) + np.abs(np.log1p(-uc)) + np.abs(np.log(den)) + 1)).sum(-1)
    else:
        y_ref, lj_ref = refmath.probit_fwd(x, lo, hi, e)
        t_y = 16 * eps * (1 / p + np.abs(y_ref) + 1)
        t_lj = (32 * eps * (1 + np.abs(y_ref)) / p + 16 * eps * (y_ref**2 + np.abs(np.log(den)) + 2)).sum(-1)
    bad = np.abs(y - y_ref) > t_y
    if bad.any():
        i = np.argwhere(bad)[0]
        ctx.fail(f"{tag}forward-value", f"forward({x[tuple(i)]!r}) = {y[tuple(i)]!r}, reference {y_ref[tuple(i)]!r} (u={u[tuple(i)]!r})", case)
    bad = np.abs(lj - lj_ref) > t_lj
    if bad.any():
        i = int(np.argmax(bad))
        ctx.fail(f"{tag}forward-logjac", f"row {i}: forward log-Jacobian {lj[i]!r}, closed form {lj_ref[i]!r} (tol {t_lj[i]:.3g})", case, row=i)
    # round trip (outside the clipping margin)
    t_x = 64 * eps * (np.abs(lo) + np.abs(hi) + den)
    bad = (np.abs(xb - x) > t_x) & inside
    if bad.any():
        i = np.argwhere(bad)[0]
        ctx.fail(f"{tag}round-trip", f"inverse(forward(x)) = {xb[tuple(i)]!r} for x = {x[tuple(i)]!r} (u={u[tuple(i)]!r}, tol {t_x[i[1]]:.3g})", case)
    # inverse log-Jacobian = -(forward log-Jacobian at the pre-image)
    rows_inside = inside.all(-1)
    bad = (np.abs(lji + lj_ref) > 2 * t_lj) & rows_inside
    if bad.any():
        i = int(np.argmax(bad))
        ctx.fail(f"{tag}inverse-logjac", f"row {i}: inverse log-Jacobian {lji[i]!r} but forward log-Jacobian at the pre-image is {lj_ref[i]!r}", case, row=i)
    # closed form of the inverse at y
    if kind == "logit":
        _, lji_ref = refmath.logit_inv(y, lo, hi)
    else:
        _, lji_ref = refmath.probit_inv(y, lo, hi)
    bad = (np.abs(lji - lji_ref) > 2 * t_lj) & rows_inside
    if bad.any():
        i = int(np.argmax(bad))
        ctx.fail(f"{tag}inverse-logjac-closed-form", f"row {i}: inverse log-Jacobian {lji[i]!r}, closed form at y {lji_ref[i]!r}", case, row=i)
    # finite differences of the implementation's own forward (independent of the closed form)
    if case["ns"] == "numpy" and case["width"] == "float64":
        ok_rows = (np.minimum(u, 1 - u) > 10 * e).all(-1) & (np.minimum(u, 1 - u) > 1e-7).all(-1)
        if ok_rows.any():
            xs = x[ok_rows]
            us = u[ok_rows]
            h = 1e-6 * np.minimum(us, 1 - us) * den
            yp = _np64(t.forward(xs + h)[0])
            ym = _np64(t.forward(xs - h)[0])
            hh = (xs + h) - (xs - h)
            with np.errstate(all="ignore"):
                fd = np.log(np.abs((yp - ym) / hh)).sum(-1)
            resolvable = (h > 1e4 * np.finfo(np.float64).eps * (np.abs(xs) + den)).all(-1)
            bad = (np.abs(fd - lj[ok_rows]) > 1e-5 * xs.shape[1] + 1e-4 * np.abs(fd)) & resolvable
            if bad.any():
                i = int(np.argmax(bad))
                ctx.fail(f"{tag}logjac-vs-finite-differences", f"reported forward log-Jacobian {lj[ok_rows][i]!r}, finite differences of forward give {fd[i]!r}", case)
    # fit returns exactly forward
    f = t.fit(x_arr)
    if not np.array_equal(env.to_np(f), env.to_np(t.forward(x_arr)[0]), equal_nan=True):
        ctx.fail(f"{tag}fit-is-forward", "fit(x) differs from forward(x)[0]", case)
    with np.errstate(all="ignore"):
        ratio = np.abs(lo) / den
    return bool((np.minimum(u, 1 - u)[inside] < 0.01).any() or (ratio > 100).any())


def _periodic_ref(x, lo, hi):
    """Exact wrap of stored values with rational arithmetic; returns float64 array."""
    out = np.empty_like(x)
    for idx in np.ndindex(x.shape):
        l, h = Fraction(float(lo[idx[-1]])), Fraction(float(hi[idx[-1]]))
        w = h - l
        r = (Fraction(float(x[idx])) - l) % w
        out[idx] = float(l + r)
    return out


def _periodic_checks(case, ctx, t, x_arr, tag):
    eps = refmath.eps_of(case["width"])
    lo, hi = _np64(t.lower), _np64(t.upper)
    w = hi - lo
    x = _np64(x_arr)
    nt = False
    for name, fn in (("forward", t.forward), ("inverse", t.inverse)):
        y_i, lj_i = fn(x_arr)
        y, lj = _np64(y_i), _np64(lj_i)
        if not np.isfinite(y).all():
            ctx.fail(f"{tag}{name}:nonfinite", "wrap produced non-finite output", case)
            continue
        if (lj != 0).any() or lj.shape != (x.shape[0],):
            ctx.fail(f"{tag}{name}-logjac", f"wrap log-Jacobian is {lj[:4]!r}, must be exactly 0 per row", case)
        ref = _periodic_ref(x, lo, hi)
        tol = 8 * eps * (np.abs(x) + np.abs(lo) + w)
        diff = np.abs(y - ref)
        circ = np.minimum(diff, np.abs(w - diff))
        bad = circ > tol
        if bad.any():
            i = np.argwhere(bad)[0]
            ctx.fail(f"{tag}{name}-value", f"wrap({x[tuple(i)]!r}) = {y[tuple(i)]!r}; exact value modulo the period is {ref[tuple(i)]!r}", case)
        # the output cannot be closer to a bound than its own width resolves (bounds held wider than the output, e.g. exact
        # integers without a declared dtype, round to the output's width)
        cast = np.float32 if env.width_of(y_i) == "float32" else np.float64
        lo_c, hi_c = np.minimum(lo, lo.astype(cast).astype(np.float64)), np.maximum(hi, hi.astype(cast).astype(np.float64))
        bad = (y < lo_c) | (y > hi_c)
        if bad.any():
            i = np.argwhere(bad)[0]
            ctx.fail(f"{tag}{name}-range", f"wrap({x[tuple(i)]!r}) = {y[tuple(i)]!r} outside [{lo[i[1]]!r}, {hi[i[1]]!r}]", case)
        near = np.minimum(ref - lo, hi - ref) <= tol
        bad = (y >= hi) & ~near
        if bad.any():
            i = np.argwhere(bad)[0]
            ctx.fail(f"{tag}{name}-half-open", f"wrap({x[tuple(i)]!r}) = upper bound {y[tuple(i)]!r} although the exact result {ref[tuple(i)]!r} is not at a period boundary", case)
        nt = nt or bool((np.abs(x - lo) > w).any())
    f = t.fit(x_arr)
    if not np.array_equal(env.to_np(f), env.to_np(t.forward(x_arr)[0])):
        ctx.fail(f"{tag}fit-is-forward", "fit(x) differs from forward(x)[0]", case)
    return nt


def _affine_checks(case, ctx, t, x_arr, tag):
    eps = refmath.eps_of(case["width"])
    x = _np64(x_arr)
    if case.get("refit"):
        t.fit(_arr(case, x * case["refit_scale"] + 1.0))  # an earlier fit on data of another scale must leave no trace
    f = t.fit(x_arr)
    y_i, lj_i = t.forward(x_arr)
    if not np.array_equal(env.to_np(f), env.to_np(y_i), equal_nan=True):
        ctx.fail(f"{tag}fit-is-forward", "fit(x) differs from forward(x)[0]", case)
    if not _finite(ctx, case, f"{tag}forward", y_i, lj_i):
        return False
    xb_i, lji_i = t.inverse(y_i)
    y, lj, xb, lji = _np64(y_i), _np64(lj_i), _np64(xb_i), _np64(lji_i)
    scale = np.abs(x).max(0) + x.std(0)
    bad = np.abs(xb - x) > 64 * eps * scale
    if bad.any():
        i = np.argwhere(bad)[0]
        ctx.fail(f"{tag}round-trip", f"inverse(forward(x)) = {xb[tuple(i)]!r} for x = {x[tuple(i)]!r}", case)
    # derivative of a linear map by exact probing: dy_i/dx_i = f(x + s_i e_i) - f(x) over s_i
    s = np.where(x.std(0) > 0, x.std(0), 1.0)
    y_s = _np64(t.forward(_arr(case, x + s))[0])
    with np.errstate(all="ignore"):
        slope = (y_s - y) / ((_np64(_arr(case, x + s)) - x))
        lj_probe = np.log(np.abs(slope)).sum(-1)
    cond = (np.abs(x).max(0) / s + 2).sum()
    tol = 64 * eps * cond * x.shape[1] + 1e-12
    if (np.abs(lj - lj_probe) > tol).any():
        i = int(np.argmax(np.abs(lj - lj_probe)))
        ctx.fail(f"{tag}forward-logjac", f"row {i}: affine forward log-Jacobian {lj[i]!r}, slope of forward gives {lj_probe[i]!r}", case)
    if (np.abs(lji + lj) > 16 * eps * (np.abs(lj) + 1)).any():
        ctx.fail(f"{tag}inverse-logjac", f"affine inverse log-Jacobian {lji[0]!r} is not minus the forward one {lj[0]!r}", case)
    return False


def _degenerate(a, case):
    """fitting data must have real spread in every column (not just rounding noise)"""
    eps = refmath.eps_of(case["width"])
    return bool((a.std(0) <= 1e3 * eps * (np.abs(a).max(0) + 1e-300)).any())


def _dtype_arg(case):
    """dtype handed to the constructors: the native dtype of the width, or None (the class default) for float32 cases that say so."""
    return None if case.get("dtype_default") else env.native_dtype(case["ns"], case["width"])


def _as_written(case, seq):
    """Bounds as users write them: Python ints where the value is integral (if the case says so)."""
    if seq is None or not case.get("int_bounds"):
        return seq
    return [int(v) if np.isfinite(v) and float(v) == int(v) and abs(v) < 2**53 else v for v in seq]


def _mk(case, kind, lo, hi):
    from aspire import transforms as T

    xp = env.xp_of(case["ns"])
    dt = _dtype_arg(case)
    lo, hi = _as_written(case, lo), _as_written(case, hi)
    if kind == "logit":
        return T.LogitTransform(lower=lo, upper=hi, xp=xp, eps=case["eps_clip"], dtype=dt)
    if kind == "probit":
        return T.ProbitTransform(lower=lo, upper=hi, xp=xp, eps=case["eps_clip"], dtype=dt)
    if kind == "periodic":
        return T.PeriodicTransform(lower=lo, upper=hi, xp=xp, dtype=dt)
    if kind == "affine":
        return T.AffineTransform(xp=xp, dtype=dt)
    return T.IdentityTransform(xp=xp, dtype=dt)


def _free_cols(case, rows, d):
    g = np.random.default_rng(case.get("free_seed", 0))
    return case.get("free_shift", 0.0) + case.get("free_scale", 1.0) * g.standard_normal((rows, d))


def _periodic_points(case, x, cols):
    lo = np.array(case["lower"]); hi = np.array(case["upper"])
    turns = np.array(case["turns"], dtype=np.float64)
    x = x.copy()
    for c in cols:
        x[:, c] = x[:, c] + turns[:, c] * (hi[c] - lo[c])
    return x


def run_case(case, ctx):
    from aspire import transforms as T

    cls = case["cls"]
    labels = [cls, case["ns"], case["width"]] + (["dtype-default"] if case.get("dtype_default") else []) + (["int-bounds"] if case.get("int_bounds") else [])
    x64, u = _points(case)
    rows, d = x64.shape
    lo, hi = case["lower"], case["upper"]
    try:
        if cls in ("logit", "probit"):
            t = _mk(case, cls, lo, hi)
            nt = _bounded_checks(case, ctx, t, cls, _arr(case, x64), "")
            return {"nontrivial": nt, "labels": labels}
        if cls == "periodic":
            t = _mk(case, "periodic", lo, hi)
            if (_np64(t.upper) - _np64(t.lower) <= 0).any():
                # bounds collapse in the requested width; the bounded classes reject this, the wrap has no period
                return {"nontrivial": False, "labels": labels + ["period-collapses-in-dtype(skipped)"]}
            x = _periodic_points(case, x64, range(d))
            nt = _periodic_checks(case, ctx, t, _arr(case, x), "")
            return {"nontrivial": nt, "labels": labels}
        if cls == "affine":
            x = _free_cols(case, rows, d)
            if _degenerate(_np64(_arr(case, x)), case):
                return {"nontrivial": False, "labels": labels + ["degenerate-spread(skipped)"]}
            t = _mk(case, "affine", None, None)
            _affine_checks(case, ctx, t, _arr(case, x), "")
            return {"nontrivial": bool(np.abs(x).max() / x.std(0).min() > 100), "labels": labels}
        if cls == "identity":
            t = _mk(case, "identity", None, None)
            xa = _arr(case, x64)
            for name, fn in (("fit", lambda a: (t.fit(a), None)), ("forward", t.forward), ("inverse", t.inverse)):
                y, lj = fn(xa)
                if not np.array_equal(env.to_np(y), env.to_np(xa)):
                    ctx.fail(f"identity-{name}", "identity transform changed values", case)
                if lj is not None and ((_np64(lj) != 0).any() or _np64(lj).shape != (rows,)):
                    ctx.fail(f"identity-{name}-logjac", "identity log-Jacobian is not zero per row", case)
            return {"nontrivial": False, "labels": labels}
    except ValueError as e:
        if "floating precision" in str(e):
            return {"nontrivial": False, "labels": labels + ["rejected-by-constructor"]}
        raise
    return _composite(case, ctx, labels, x64, u)


def _composite(case, ctx, labels, x64, u):
    from aspire import transforms as T

    xp = env.xp_of(case["ns"])
    dt = env.native_dtype(case["ns"], case["width"])
    rows, d = x64.shape
    kinds = case["kinds"]
    params = [f"p{i}" for i in range(d)]
    lo = list(case["lower"]); hi = list(case["upper"])
    per_cols = [i for i, k in enumerate(kinds) if k == "periodic"]
    # "half": bounded on one side only - not mapped to the real line (there is no finite width), i.e. treated like a free column
    free_cols = [i for i, k in enumerate(kinds) if k in ("free", "half")]
    bnd_cols = [i for i, k in enumerate(kinds) if k == "bounded"] if case["b2u"] else []
    x = x64.copy()
    if free_cols:
        x[:, free_cols] = _free_cols(case, rows, len(free_cols))
        for i in free_cols:
            if kinds[i] == "half":  # keep the points on the supported side of the single bound
                x[:, i] = (lo[i] + np.abs(x[:, i] - lo[i])) if i % 2 == 0 else (hi[i] - np.abs(x[:, i] - hi[i]))
    if per_cols:
        x = _periodic_points(case, x, per_cols)
    def _b(i):
        if kinds[i] == "free":
            return [-np.inf, np.inf]
        if kinds[i] == "half":
            return [_as_written(case, [lo[i]])[0], np.inf] if i % 2 == 0 else [-np.inf, _as_written(case, [hi[i]])[0]]
        return _as_written(case, [lo[i], hi[i]])

    bounds = {p: _b(i) for i, p in enumerate(params)}
    if case.get("order_seed", 0) % 2:  # the mapping may list the names in another order than `parameters`
        items = list(bounds.items())
        bounds = dict(items[i] for i in np.random.default_rng(case["order_seed"]).permutation(len(items)))
    kw = dict(parameters=params, prior_bounds=bounds, bounded_to_unbounded=case["b2u"],
              bounded_transform=case["bounded_transform"], affine_transform=case["affine"], xp=xp, eps=case["eps_clip"], dtype=_dtype_arg(case))
    try:
        if case["cls"] == "flowtransform":
            c = T.FlowTransform(**kw)
        else:
            order = list(np.random.default_rng(case.get("order_seed", 0)).permutation(len(per_cols))) if per_cols else []
            c = T.CompositeTransform(periodic_parameters=[params[per_cols[i]] for i in order], **kw)
    except ValueError as e:
        if "floating precision" in str(e):
            return {"nontrivial": False, "labels": labels + ["rejected-by-constructor"]}
        raise
    xa = _arr(case, x)
    if case["affine"] and _degenerate(_np64(xa), case):
        return {"nontrivial": False, "labels": labels + ["degenerate-spread(skipped)"]}
    eps = refmath.eps_of(case["width"])
    # manual composition of the public part classes, in the documented order
    z = xa
    lj_parts = np.zeros(rows)
    sub = {}
    def setcols(z, cols, vals):
        zn = env.to_np(z).copy()
        zn[:, cols] = env.to_np(vals)
        return xp.asarray(zn, dtype=dt)
    try:
        if per_cols:
            sub["periodic"] = _mk(case, "periodic", [lo[i] for i in per_cols], [hi[i] for i in per_cols])
            if (_np64(sub["periodic"].upper) - _np64(sub["periodic"].lower) <= 0).any():
                return {"nontrivial": False, "labels": labels + ["period-collapses-in-dtype(skipped)"]}
            v, l = sub["periodic"].forward(z[:, per_cols] if case["ns"] != "jax" else z[:, np.array(per_cols)])
            z = setcols(z, per_cols, v); lj_parts = lj_parts + _np64(l)
        if bnd_cols:
            sub["bounded"] = _mk(case, case["bounded_transform"], [lo[i] for i in bnd_cols], [hi[i] for i in bnd_cols])
            v, l = sub["bounded"].forward(z[:, bnd_cols] if case["ns"] != "jax" else z[:, np.array(bnd_cols)])
            z = setcols(z, bnd_cols, v); lj_parts = lj_parts + _np64(l)
    except ValueError as e:
        if "floating precision" in str(e):
            return {"nontrivial": False, "labels": labels + ["rejected-by-constructor"]}
        raise
    if not np.isfinite(_np64(z)).all():
        return {"nontrivial": False, "labels": labels + ["nonfinite-intermediate(skipped)"]}
    if case["affine"]:
        if _degenerate(_np64(z), case):
            return {"nontrivial": False, "labels": labels + ["degenerate-spread(skipped)"]}
        sub["affine"] = _mk(case, "affine", None, None)
        zf = sub["affine"].fit(z)
        v, l = sub["affine"].forward(z)
        z = v; lj_parts = lj_parts + _np64(l)
    # the composite itself (optionally fitted before on other data: the second fit must fully replace the first)
    if case.get("refit") and case["affine"]:
        other = _np64(xa).copy()
        for i in range(d):
            if i not in per_cols and i not in bnd_cols:
                other[:, i] = other[:, i] * case["refit_scale"] + 1.0
            elif i in bnd_cols:
                mid = 0.5 * (lo[i] + hi[i])
                other[:, i] = mid + (other[:, i] - mid) * 0.25
        c.fit(_arr(case, other))
    f = c.fit(xa)
    y_i, lj_i = c.forward(xa)
    if not np.array_equal(env.to_np(f), env.to_np(y_i), equal_nan=True):
        ctx.fail("composite:fit-is-forward", "fit(x) differs from forward(x)[0] evaluated with the fitted state", case)
    y, lj = _np64(y_i), _np64(lj_i)
    zr = _np64(z)
    scale = np.abs(zr) + 1
    if y.shape != zr.shape or (np.abs(y - zr) > 8 * eps * scale).any():
        i = np.argwhere(np.abs(y - zr) > 8 * eps * scale)[0] if y.shape == zr.shape else (0, 0)
        ctx.fail("composite:forward-value", f"composite forward differs from periodic->bounded->affine composition of its parts at {tuple(i)}: {y[tuple(i)]!r} vs {zr[tuple(i)]!r}", case)
    ljtol = 64 * eps * (np.abs(lj_parts) + d) + (1e-6 * (np.abs(lj_parts) + d) if False else 0)
    if lj.shape != (rows,) or (np.abs(lj - lj_parts) > ljtol).any():
        i = int(np.argmax(np.abs(lj - lj_parts))) if lj.shape == (rows,) else 0
        ctx.fail("composite:forward-logjac", f"row {i}: composite log-Jacobian {lj[i] if lj.shape == (rows,) else lj!r} is not the sum of its parts {lj_parts[i]!r} (reported dtype {lj_i.dtype})", case,
                 logjac_dtype=str(lj_i.dtype), ns=case["ns"], width=case["width"])
    # the kernels of the MCMC samplers hand NumPy arrays to a transform living in another namespace: the map must give the same
    # result and must not write into the caller's array
    if case["ns"] != "numpy":
        x_np = _np64(xa).astype(np.float32 if case["width"] == "float32" else np.float64)
        keep = x_np.copy()
        y_np, _ = c.forward(x_np)
        if not np.array_equal(x_np, keep, equal_nan=True):
            ctx.fail("composite:input-overwritten", "forward() wrote into the NumPy array it was given", case)
        if not np.allclose(_np64(y_np), y, rtol=64 * eps, atol=64 * eps, equal_nan=True):
            ctx.fail("composite:cross-namespace-input", "forward() of a NumPy array differs from forward() of the same values in the transform's namespace", case)
        y_keep = _np64(y_i).astype(x_np.dtype)
        y_in = y_keep.copy()
        c.inverse(y_in)
        if not np.array_equal(y_in, y_keep, equal_nan=True):
            ctx.fail("composite:input-overwritten", "inverse() wrote into the NumPy array it was given", case)
    untouched = [i for i in range(d) if i not in per_cols and i not in bnd_cols] if not case["affine"] else []
    if untouched and not np.array_equal(env.to_np(y_i)[:, untouched], env.to_np(xa)[:, untouched]):
        ctx.fail("composite:untouched-columns", "a column that no part acts on was changed", case)
    # inverse: reverse order, Jacobian = -(forward) at the pre-image, round trip
    xb_i, lji_i = c.inverse(y_i)
    xb, lji = _np64(xb_i), _np64(lji_i)
    if not np.isfinite(xb).all() or not np.isfinite(lji).all():
        ctx.fail("composite:inverse:nonfinite", "composite inverse produced non-finite output", case)
    else:
        xr = _np64(xa)
        e = float(case["eps_clip"])
        loa, hia = np.array(lo, dtype=np.float64), np.array(hi, dtype=np.float64)
        # use the bounds as the parts store them (cast to the requested width)
        if per_cols:
            loa[per_cols] = _np64(sub["periodic"].lower); hia[per_cols] = _np64(sub["periodic"].upper)
        if bnd_cols:
            loa[bnd_cols] = _np64(sub["bounded"].lower); hia[bnd_cols] = _np64(sub["bounded"].upper)
        ok = np.ones_like(xr, dtype=bool)
        tol = 64 * eps * (np.abs(xr) + 1)
        for i in bnd_cols:
            uu = (xr[:, i] - loa[i]) / (hia[i] - loa[i])
            ok[:, i] = (uu >= e) & (uu <= 1 - e)
            tol[:, i] = 64 * eps * (abs(loa[i]) + abs(hia[i]) + (hia[i] - loa[i]))
        target = xr.copy()
        for i in per_cols:
            target[:, i] = _periodic_ref(xr[:, [i]], loa[[i]], hia[[i]])[:, 0]
            w = hia[i] - loa[i]
            tol[:, i] = 8 * eps * (np.abs(xr[:, i]) + abs(loa[i]) + w)
            dd = np.abs(xb[:, i] - target[:, i])
            xb[:, i] = np.where(np.abs(w - dd) < dd, target[:, i] + np.sign(xb[:, i] - target[:, i]) * np.abs(w - dd), xb[:, i])
        if case["affine"]:
            s = _np64(z).std(0)
            # affine then inverse-affine re-introduces rounding proportional to the intermediate scale; propagate through the bounded map
            tol = tol * 4 + 64 * eps * (np.abs(xr).max(0) + 1)
            for i in bnd_cols:
                pass
        bad = (np.abs(xb - target) > tol) & ok
        if case["affine"] and bnd_cols:
            # conditioning of bounded^-1 o affine^-1 is checked through the part classes; here only a loose bound
            bad = (np.abs(xb - target) > 1e3 * tol) & ok
        if bad.any():
            i = np.argwhere(bad)[0]
            ctx.fail("composite:round-trip", f"inverse(forward(x)) = {xb[tuple(i)]!r} for x = {xr[tuple(i)]!r} (column kind {kinds[i[1]]})", case)
        rows_ok = ok.all(-1)
        # near-bound conditioning: compare with the parts' own inverse Jacobians instead of a closed form
        lji_parts = np.zeros(rows)
        zz = y_i
        if case["affine"]:
            zz, l = sub["affine"].inverse(zz); lji_parts = lji_parts + _np64(l)
        if bnd_cols:
            v, l = sub["bounded"].inverse(zz[:, bnd_cols] if case["ns"] != "jax" else zz[:, np.array(bnd_cols)])
            lji_parts = lji_parts + _np64(l)
        if per_cols:
            lji_parts = lji_parts + 0.0
        if (np.abs(lji - lji_parts) > 64 * eps * (np.abs(lji_parts) + d)).any():
            i = int(np.argmax(np.abs(lji - lji_parts)))
            ctx.fail("composite:inverse-logjac", f"row {i}: composite inverse log-Jacobian {lji[i]!r} is not the sum of its parts' inverse log-Jacobians {lji_parts[i]!r} (dtype {lji_i.dtype})", case,
                     logjac_dtype=str(lji_i.dtype), ns=case["ns"], width=case["width"])
    active = (1 if per_cols else 0) + (1 if bnd_cols else 0) + (1 if case["affine"] else 0)
    labels.append(f"parts:{active}")
    labels += [f"has-{k}" for k in sorted(set(kinds))]
    if case["affine"]:
        labels.append("affine-on")
    return {"nontrivial": active >= 2, "labels": labels}
