"""C03 - the fitted proposal is a normalised density; sampling and evaluation agree."""
from __future__ import annotations

import math
import os
import shutil
import tempfile

import numpy as np
from hypothesis import strategies as st

from .. import env, refmath

ID = "C03"
LEVEL = "exploration"
BUDGET = {"quick": 64, "thorough": 3000}
SHARDS = {"quick": 8, "thorough": 16}
SHRINK = {"quick": False, "thorough": True}
RULE = (
    "case = flow back-end (zuko, flowjax 1 in 8) x bounded transform (logit, probit, off) x affine (on, off) x width x dims in {1,2} "
    "x generated bounds (written as floats or as Python ints; occasionally one parameter in tiny / huge units, box 4e-6 or 5e4 wide) x dtype declared or left to the back-end default x generated training set (mixture placed anywhere in the box, incl. hugging a bound; spread > 0 in every "
    "dimension) x state (untrained with fitted data transform, trained 1-25 epochs, optionally fitted before on data of another scale) x construction route (FlowTransform handed to the "
    "flow class, or Aspire.init_flow / fit wiring) x non-default flow options. Oracles: (a) quadrature of exp(log_prob) over the whole "
    "support must be 1 within 5e-3 - for bounded parameters by substitution through the harness's own float64 logit / probit map, "
    "with Gauss-Legendre panels that follow the quantiles of 4000 of the flow's own draws (1-D: ~185 panels x 8 nodes; 2-D: ~70 x 5 per axis) spanning +-12 standard deviations of the mapped training data; (b) log q "
    "returned by sample_and_log_prob equals log_prob at the returned points; (c) every draw lies inside declared finite bounds; "
    "(d) after the flow was saved twice and reloaded from the second copy, log_prob on the draws is unchanged (1e-6; float32: the allowance of (b)) and (a) still holds; (e) Aspire.sample_flow returns "
    "consistent (x, log q) pairs. Non-trivial = bounded or affine transform active and the flow trained."
)
RULE += " " + ('The (draw, log q) pair is also requested in two other output namespaces (xp argument) and compared with log_prob at the converted draws.')
ASSUMPTIONS = [
    "quadrature: Gauss-Legendre panels in the unbounded coordinate placed at quantiles of the flow's own draws; mass outside +-12 sd of the mapped training data is "
    "assumed < 1e-3 for the barely trained autoregressive flows used (Gaussian tails)",
    "pointwise agreement tolerance 1e-5 (float64) / 2e-3 (float32), skipping draws closer to a bound than 1e-4 (float32) / 1e-9 "
    "(float64) of the width, where the bounded maps are ill-conditioned",
    "TORCHDYNAMO_DISABLE=1; FlowJax in float64 needs jax_enable_x64",
]


@st.composite
def _case(draw):
    backend = draw(st.sampled_from(["zuko"] * 7 + ["flowjax"]))
    d = draw(st.sampled_from([1, 1, 2]))
    bounded = draw(st.sampled_from(["logit", "probit", None]))
    lo = [draw(st.sampled_from([0.0, -1.0, -3.5, 2.0, 10.0])) for _ in range(d)]
    w = [draw(st.sampled_from([1.0, 2.0, 6.283185307179586, 0.5, 20.0])) for _ in range(d)]
    if draw(st.integers(0, 5)) == 0:
        # a parameter measured in tiny or huge units: the whole box is far narrower / wider than any absolute constant
        j = draw(st.integers(0, d - 1))
        lo[j], w[j] = draw(st.sampled_from([(1e-6, 4e-6), (0.0, 3e-5), (-2e4, 5e4)]))
    comps = draw(st.integers(1, 2))
    centers = [[draw(st.sampled_from([0.5, 0.3, 0.8, 0.05, 0.95, 0.5])) for _ in range(d)] for _ in range(comps)]
    width = draw(st.sampled_from(["float32", "float64", "float64"]))
    dtype_default = draw(st.integers(0, 3)) == 0
    if dtype_default:  # dtype left unset: the back-end's default width (float32 for both back-ends)
        width = "float32"
    return {
        "backend": backend, "d": d, "bounded": bounded, "affine": draw(st.booleans()), "width": width, "dtype_default": dtype_default,
        # bounds written as Python ints where the values are integral (as users write them)
        "int_bounds": draw(st.booleans()),
        "lower": lo, "w": w, "centers": centers, "spread": draw(st.sampled_from([0.02, 0.05, 0.15])),
        "n_train": draw(st.sampled_from([48, 96])), "epochs": draw(st.sampled_from([0, 1, 3, 25])),
        "route": draw(st.sampled_from(["direct", "direct", "aspire"])), "options": draw(st.sampled_from(["default", "nondefault"])),
        "seed": draw(st.integers(0, 10**6)),
        # history: the same flow object may have been fitted before on data of another scale
        "prefit": draw(st.sampled_from([None, None, 0.2, 3.0])),
        "bounds_reversed": draw(st.booleans()),
    }


def cases(tier):
    return _case()


def _train_data(case):
    g = np.random.default_rng(case["seed"])
    d = case["d"]
    lo = np.array(case["lower"], dtype=float)
    w = np.array(case["w"], dtype=float)
    n = case["n_train"]
    comp = g.integers(0, len(case["centers"]), size=n)
    c = np.array(case["centers"])[comp]
    u = c + case["spread"] * g.normal(size=(n, d))
    if case["bounded"]:
        u = np.clip(u, 1e-3, 1 - 1e-3)
    return lo + w * u


def _other(case, data):
    """the same points shrunk / stretched about the box centre: training data of another scale (kept inside the box)"""
    lo = np.array(case["lower"], dtype=float)
    w = np.array(case["w"], dtype=float)
    mid = lo + 0.5 * w
    dev = (data - mid) * case["prefit"]
    if case["bounded"]:
        # stay inside the box without collapsing the spread: shrink uniformly if the stretched set would leave it
        dev = dev * np.minimum(1.0, 0.49 * w / np.maximum(np.abs(dev).max(0), 1e-300))
    return mid + dev


def _to_y(case, x):
    """harness's own map native -> unbounded coordinate, and log|dx/dy|"""
    lo = np.array(case["lower"], dtype=float)
    hi = lo + np.array(case["w"], dtype=float)
    if case["bounded"] == "logit":
        y, lj = refmath.logit_fwd(x, lo, hi, None)
        return y
    if case["bounded"] == "probit":
        y, lj = refmath.probit_fwd(x, lo, hi, None)
        return y
    return np.asarray(x, dtype=float)


def _from_y(case, y):
    lo = np.array(case["lower"], dtype=float)
    hi = lo + np.array(case["w"], dtype=float)
    if case["bounded"] == "logit":
        return refmath.logit_inv(y, lo, hi)
    if case["bounded"] == "probit":
        return refmath.probit_inv(y, lo, hi)
    y = np.asarray(y, dtype=float)
    return y, np.zeros(y.shape[0])


def _simpson_weights(n, h):
    w = np.ones(n)
    w[1:-1:2] = 4
    w[2:-1:2] = 2
    return w * h / 3


def _lim(case):
    """|y| up to which the native coordinate is resolvable: inside the clipping margin eps=1e-6 in float64
    (u within 2e-6 of a bound), and u within ~1e-4 of a bound in float32 (x itself cannot be represented closer)"""
    if case["width"] == "float64":
        return 13.0 if case["bounded"] == "logit" else 4.7
    return 9.0 if case["bounded"] == "logit" else 3.7


def _axis(edges, order):
    """Gauss-Legendre nodes / weights on consecutive panels"""
    t, w = np.polynomial.legendre.leggauss(order)
    xs, ws = [], []
    for l, r in zip(edges[:-1], edges[1:]):
        h = 0.5 * (r - l)
        xs.append(0.5 * (l + r) + h * t)
        ws.append(h * w)
    return np.concatenate(xs), np.concatenate(ws)


def _integral(case, flow, data, draws_y=None):
    """quadrature of exp(log_prob) over the support, by substitution x = x(y).

    Panels follow the quantiles of the flow's own draws (fine where it concentrates its mass) and extend over +-12 sd of the
    mapped training data, [-12, 12], and 1.5x the range of the draws; Gauss-Legendre rule inside each panel."""
    d = case["d"]
    yd = _to_y(case, data)
    m, s = yd.mean(0), yd.std(0)
    lim = _lim(case) if case["bounded"] else None
    n_pan, order = (160, 8) if d == 1 else (48, 5)
    nodes, weights = [], []
    for i in range(d):
        L, R = min(m[i] - 12 * s[i], -12.0), max(m[i] + 12 * s[i], 12.0)
        inner = []
        if draws_y is not None:
            col = draws_y[:, i]
            col = col[np.isfinite(col)]
            if len(col):
                rng_ = float(col.max() - col.min())
                L, R = min(L, col.min() - 0.5 * rng_), max(R, col.max() + 0.5 * rng_)
                inner = list(np.quantile(col, np.linspace(0, 1, n_pan + 1)))
        if lim is not None:
            L, R = max(L, -lim), min(R, lim)
            inner = [v for v in inner if -lim < v < lim]
        coarse = list(np.linspace(L, R, 25))
        edges = np.array(sorted(set([L, R] + inner + coarse)))
        edges = edges[(edges >= L) & (edges <= R)]
        keep = [edges[0]]
        for e in edges[1:]:
            if e - keep[-1] > 1e-9 * max(1.0, R - L):
                keep.append(e)
        t, wt = _axis(np.array(keep), order)
        nodes.append(t)
        weights.append(wt)
    if d == 1:
        y = nodes[0][:, None]
        wq = weights[0]
    else:
        Y0, Y1 = np.meshgrid(nodes[0], nodes[1], indexing="ij")
        y = np.stack([Y0.ravel(), Y1.ravel()], axis=1)
        wq = np.outer(weights[0], weights[1]).ravel()
    x, ljac = _from_y(case, y)
    lp = np.concatenate([env.to_np(flow.log_prob(x[k:k + 50000])).astype(np.float64) for k in range(0, len(x), 50000)])
    with np.errstate(all="ignore"):
        dens = np.exp(lp + ljac)
    dens = np.where(np.isfinite(dens), dens, 0.0)
    return float(np.sum(wq * dens))


def _build(case):
    from aspire.flows import get_flow_wrapper
    from aspire.transforms import FlowTransform

    backend = case["backend"]
    d = case["d"]
    # names that are not in alphabetical order; the bounds mapping may list them in another order than `parameters`
    params = ["zeta", "alpha"][:d]
    lo = np.array(case["lower"], dtype=float)
    hi = lo + np.array(case["w"], dtype=float)
    def _num(v):
        v = float(v)
        return int(v) if case.get("int_bounds") and v == int(v) else v

    bounds = {p: [_num(lo[i]), _num(hi[i])] for i, p in enumerate(params)} if case["bounded"] else None
    dtype_arg = None if case.get("dtype_default") else case["width"]
    if bounds and case.get("bounds_reversed"):
        bounds = dict(reversed(list(bounds.items())))
    kw = {}
    if backend == "zuko":
        kw["seed"] = case["seed"]
        kw.update({"hidden_features": [8, 8], "transforms": 2} if case["options"] == "nondefault" else {"hidden_features": [16], "transforms": 1})
    else:
        import jax

        env.jax()
        kw["key"] = jax.random.key(case["seed"])
        kw.update({"flow_layers": 2, "nn_width": 8} if case["options"] == "nondefault" else {"flow_layers": 1, "nn_width": 8})
    data = _train_data(case)
    lr = 1e-2 if case["epochs"] > 5 else 1e-3
    fit_kw = ({"n_epochs": case["epochs"], "batch_size": 32, "lr": lr} if backend == "zuko"
              else {"max_epochs": case["epochs"], "batch_size": 32, "show_progress": False, "learning_rate": lr})
    if case["route"] == "aspire":
        from aspire import Aspire
        from aspire.samples import Samples

        xp = env.xp_of("torch" if backend == "zuko" else "jax")
        a = Aspire(log_likelihood=lambda s: None, log_prior=lambda s: None, dims=d, parameters=params, prior_bounds=bounds,
                   bounded_to_unbounded=bool(case["bounded"]), bounded_transform=case["bounded"] or "logit", flow_backend=backend,
                   xp=xp, dtype=dtype_arg, **kw)
        # affine on/off is not exposed by Aspire: its wiring always whitens
        if case["epochs"] > 0:
            if case.get("prefit"):
                a.fit(Samples(_other(case, data), xp=xp, dtype=case["width"]), **dict(fit_kw, **({"n_epochs": 1} if backend == "zuko" else {"max_epochs": 1})))
            a.fit(Samples(data, xp=xp, dtype=case["width"]), **fit_kw)
        else:
            a.init_flow()
            if case.get("prefit"):
                a.flow.fit_data_transform(a.flow.xp.asarray(_other(case, data), dtype=a.flow.dtype))
            a.flow.fit_data_transform(a.flow.xp.asarray(data, dtype=a.flow.dtype))
        return a, a.flow, data
    Flow, fxp = get_flow_wrapper(backend)
    dtf = FlowTransform(parameters=params, prior_bounds=bounds, bounded_to_unbounded=bool(case["bounded"]),
                        bounded_transform=case["bounded"] or "logit", affine_transform=case["affine"], xp=fxp, dtype=dtype_arg)
    f = Flow(dims=d, data_transform=dtf, dtype=dtype_arg, **kw)
    if case.get("prefit"):
        f.fit_data_transform(fxp.asarray(_other(case, data), dtype=f.dtype))
    if case["epochs"] > 0:
        f.fit(data, **fit_kw)
    else:
        f.fit_data_transform(fxp.asarray(data, dtype=f.dtype))
    return None, f, data


def run_case(case, ctx):
    from aspire.utils import AspireFile

    labels = [case["backend"], str(case["bounded"]), "affine" if case["affine"] or case["route"] == "aspire" else "no-affine", case["width"],
              f"d{case['d']}", "trained" if case["epochs"] else "untrained", case["route"]]
    if case.get("dtype_default"):
        labels.append("dtype-default")
    if case.get("int_bounds") and case["bounded"]:
        labels.append("int-bounds")
    a, flow, data = _build(case)
    lo = np.array(case["lower"], dtype=float)
    hi = lo + np.array(case["w"], dtype=float)
    w64 = case["width"] == "float64"
    # (a) normalisation
    # mass the flow puts inside the documented clipping margin next to a bound (estimated from its own draws): there the
    # evaluated density is that of the clipped point, so that mass is legitimately missing from the integral
    f_clip, n_mc = 0.0, 4000
    xs, _ = flow.sample_and_log_prob(n_mc)
    xs = env.to_np(xs).astype(np.float64)
    if case["bounded"]:
        ys = _to_y(case, np.clip(xs, lo + 1e-300, hi))
        lim = _lim(case)
        with np.errstate(all="ignore"):
            f_clip = float(np.mean((np.abs(ys) > lim).any(-1) | ~np.isfinite(ys).all(-1)))
    else:
        ys = xs
    span = ys  # the flow's own draws in the unbounded coordinate steer the quadrature panels
    slack = 5e-3 + 5 * math.sqrt(max(f_clip * (1 - f_clip), 1.0 / n_mc) / n_mc) if f_clip > 0 else 5e-3
    total = _integral(case, flow, data, span)
    if not math.isfinite(total) or abs(total - (1.0 - f_clip)) > slack:
        ctx.fail("normalisation", f"exp(log_prob) integrates to {total:.6f} over the support; expected {1 - f_clip:.6f} "
                                  f"(1 minus the {f_clip:.4f} of its mass the flow places inside the clipping margin) +- {slack:.4f} "
                                  f"(bounded={case['bounded']}, affine={case['affine']}, {case['backend']}, {'trained' if case['epochs'] else 'untrained'})",
                 case, integral=total, clipped_mass=f_clip)
    if f_clip > 0.01:
        labels.append("mass-in-clipping-margin>1%")
    # (b) + (c) draws
    x, lq = flow.sample_and_log_prob(64)
    xn = env.to_np(x).astype(np.float64)
    lqn = env.to_np(lq).astype(np.float64)
    if case["bounded"]:
        # the bounds as the flow holds them (rounded to the requested width; float32(2*pi) > 2*pi)
        cast = np.float64 if w64 else np.float32
        lo_s, hi_s = lo.astype(cast).astype(np.float64), hi.astype(cast).astype(np.float64)
        lo_c, hi_c = np.minimum(lo, lo_s), np.maximum(hi, hi_s)
        if ((xn < lo_c) | (xn > hi_c)).any() or not np.isfinite(xn).all():
            j = int(np.argmax(((xn < lo_c) | (xn > hi_c)).any(-1)))
            ctx.fail("draw-outside-bounds", f"draw {xn[j].tolist()} lies outside [{lo.tolist()}, {hi.tolist()}]", case)
    lp = env.to_np(flow.log_prob(x)).astype(np.float64)
    u = (xn - lo) / (hi - lo) if case["bounded"] else np.full_like(xn, 0.5)
    edge = 2e-6 if w64 else 1e-4  # inside the clipping margin (eps=1e-6) evaluation uses the clipped point by design
    ok = (np.minimum(u, 1 - u) > edge).all(-1) & np.isfinite(lqn) & np.isfinite(lp)
    tol = 1e-5 if w64 else 2e-3
    bad = ok & (np.abs(lqn - lp) > tol * (1 + np.abs(lp)))
    if bad.any():
        j = int(np.argmax(np.abs(lqn - lp) * ok))
        ctx.fail("sample-vs-evaluate", f"sample_and_log_prob returned log q={lqn[j]:.8g} for a point whose log_prob is {lp[j]:.8g}", case,
                 diff=float(abs(lqn[j] - lp[j])))
    # (b') the same pair asked for in another output namespace (the xp argument of the sampling methods)
    for out_ns in ("numpy", "torch" if case["backend"] == "flowjax" else "jax"):
        ox, olq = flow.sample_and_log_prob(64, xp=env.xp_of(out_ns))
        oxn, olqn = env.to_np(ox).astype(np.float64), env.to_np(olq).astype(np.float64)
        oref = env.to_np(flow.log_prob(env.to_np(ox))).astype(np.float64)
        ou = (oxn - lo) / (hi - lo) if case["bounded"] else np.full_like(oxn, 0.5)
        ok3 = (np.minimum(ou, 1 - ou) > edge).all(-1) & np.isfinite(oref) & np.isfinite(olqn)
        if (ok3 & (np.abs(olqn - oref) > tol * (1 + np.abs(oref)))).any():
            j = int(np.argmax(np.abs(olqn - oref) * ok3))
            ctx.fail("sample-vs-evaluate:xp", f"sample_and_log_prob(xp={out_ns}) returned log q={olqn[j]:.8g} for a point whose log_prob is {oref[j]:.8g}", case,
                     out_ns=out_ns)
    # (e) Aspire.sample_flow
    if a is not None:
        s = a.sample_flow(16)
        sx, slq = env.to_np(s.x).astype(np.float64), env.to_np(s.log_q).astype(np.float64)
        ref = env.to_np(flow.log_prob(s.x)).astype(np.float64)
        uu = (sx - lo) / (hi - lo) if case["bounded"] else np.full_like(sx, 0.5)
        ok2 = (np.minimum(uu, 1 - uu) > edge).all(-1) & np.isfinite(ref)
        if (ok2 & (np.abs(slq - ref) > tol * (1 + np.abs(ref)))).any():
            ctx.fail("sample_flow-pairs", "Aspire.sample_flow returned log q that is not the proposal's log_prob of the returned points", case)
    # (d) save -> load
    d_ = tempfile.mkdtemp(prefix="c03-")
    try:
        p = os.path.join(d_, "f.h5")
        with AspireFile(p, "w") as h:
            flow.save(h, "flow0")  # the object is saved more than once in its life (fit, then sampling, write the flow)
            flow.save(h, "flow")
        with AspireFile(p, "r") as h:
            r = type(flow).load(h, "flow")
        lp2 = env.to_np(r.log_prob(x)).astype(np.float64)
        # a float32 flow may hold its fitted constants (bounds, mean, scale) wider than it stores them: the reload is exact to the
        # declared width only, and next to a bound the bounded maps amplify that rounding by 1/distance (same allowance as (b))
        if (ok & (np.abs(lp2 - lp) > (1e-6 if w64 else tol) * (1 + np.abs(lp)))).any():
            j = int(np.argmax(np.abs(lp2 - lp) * ok))
            ctx.fail("reload-changes-density", f"log_prob after save/load is {lp2[j]:.8g}, before {lp[j]:.8g}", case)
        total2 = _integral(case, r, data, span)
        if not math.isfinite(total2) or abs(total2 - total) > 1e-4:
            ctx.fail("normalisation-after-reload", f"reloaded proposal integrates to {total2:.6f}", case, integral=total2)
    finally:
        shutil.rmtree(d_, ignore_errors=True)
    return {"nontrivial": bool((case["bounded"] or case["affine"] or case["route"] == "aspire") and case["epochs"] > 0), "labels": labels}
