"""C18 - the diagnostic history is a faithful record of the run (also after resume)."""
from __future__ import annotations

import math
import pickle

import numpy as np
from hypothesis import strategies as st

from .. import env, refmath
from .. import runs_common as rc
from .. import smc_common as sc

ID = "C18"
LEVEL = "exploration"
BUDGET = {"quick": 700, "thorough": 45000}
SHARDS = {"quick": 8, "thorough": 16}
RULE = (
    "case = SMC run (table proposal/likelihood, kernel double, any schedule option, namespace, width, n_final_samples) "
    "plus a checkpoint cadence, a generated checkpoint index to resume from and the form of the checkpoint (bytes / dict / the state object handed to the callback, kept in memory while the run continued). "
    "Oracle on the uninterrupted AND on the resumed run: every populated series has exactly one entry per iteration "
    "(kernel series: one per kernel invocation = iterations + 1 for a final enlargement); sample_history has iterations+1 "
    "entries, entry t carries beta_t (0 first), N particles; ess[t], ess_target[t], eff_target[t], log_norm_ratio[t] equal "
    "their float64 recomputation from entry t-1 and (beta_{t-1}, beta_t); the returned samples are the last entry when no "
    "enlargement happened. One case in seven runs the ensemble-kernel variant (emcee_smc, which records an additional per-kernel series) "
    "through the problem of the run-based checks, with the length / temperature / size bookkeeping oracles on every populated series. Non-trivial = >=2 iterations or resumed from a checkpoint with >=1 completed iteration."
)
RULE += " " + ('(Table runs also with another output namespace, or on a sampler object that has already completed an unrelated run.)')
ASSUMPTIONS = [
    "kernel packages are harness doubles",
    "resume uses a freshly built sampler with the same arguments and a numpy Generator with the same seed (its state is restored from the payload)",
    "ESS tolerance 64*N*eps relative; ratios 64*eps*(max|incremental log w|+1)+N*eps",
]


@st.composite
def _case(draw):
    if draw(st.integers(0, 6)) == 0:
        # the ensemble-kernel SMC variant (records an additional per-kernel series); bookkeeping oracles only
        c = draw(rc.run_case(samplers=["emcee_smc"]))
        c["mode"] = "emcee"
        c["ckpt_every"] = c["ckpt_every"] or 1
        c["resume_pick"] = draw(st.integers(0, 50))
        c["resume_form"] = draw(st.sampled_from(["bytes", "dict", "live-dict"]))
        return c
    c = draw(sc.table_case(kmin=-1))
    c["ckpt_every"] = draw(st.integers(1, 3))
    c["resume_pick"] = draw(st.integers(0, 50))
    c["resume_form"] = draw(st.sampled_from(["bytes", "dict", "live-dict"]))
    return c


def cases(tier):
    return _case()


def check_history(case, r, ctx, tag, labels):
    h = r.history
    betas = sc.floats(h.beta)
    n_it = len(betas)
    n = case["n"]
    eps = refmath.eps_of(case["width"])
    for name in ("ess", "ess_target", "eff_target", "log_norm_ratio", "log_norm_ratio_var"):
        if len(getattr(h, name)) != n_it:
            ctx.fail(f"{tag}series-length", f"history.{name} has {len(getattr(h, name))} entries for {n_it} iterations", case,
                     series=name)
    enlarged = ("n_final" in case) and case["n_final"] != n
    if len(h.mcmc_acceptance) not in (n_it, n_it + (1 if enlarged else 0)) or (
        enlarged and len(h.mcmc_acceptance) != n_it + 1
    ):
        ctx.fail(f"{tag}kernel-series-length",
                 f"history.mcmc_acceptance has {len(h.mcmc_acceptance)} entries for {n_it} iterations (enlargement={enlarged})", case)
    pops = h.sample_history
    if case.get("store_history") is False:
        if len(pops) != 0:
            ctx.fail(f"{tag}population-count", f"store_sample_history=False but sample_history has {len(pops)} entries", case)
        return
    if len(pops) != n_it + 1:
        pb = [float(p.beta) if p.beta is not None else None for p in pops]
        ctx.fail(f"{tag}population-count",
                 f"sample_history has {len(pops)} entries for {n_it} iterations (expected {n_it + 1}); their betas: {pb[:12]}",
                 case, n_pops=len(pops), iterations=n_it)
        return
    prev = 0.0
    rt = sc.ess_rtol(case)
    for t in range(n_it + 1):
        p = pops[t]
        want = 0.0 if t == 0 else betas[t - 1]
        if p.beta is None or float(p.beta) != want:
            ctx.fail(f"{tag}population-beta", f"sample_history[{t}].beta={p.beta!r}, expected {want!r}", case)
        if len(p.x) != n:
            ctx.fail(f"{tag}population-size", f"sample_history[{t}] has {len(p.x)} particles, run uses {n}", case)
    for t, b in enumerate(betas, start=1):
        lw = sc.pop_log_w(pops[t - 1])
        e_ref = sc.ess_at(lw, prev, b)
        e = float(env.to_np(h.ess[t - 1]))
        inc_b = sc.incr(lw, prev, b)
        mag = float(np.max(np.abs(inc_b[np.isfinite(inc_b)]))) if np.isfinite(inc_b).any() else 0.0
        # the recorded value comes from an un-shifted helper applied to log-weights of magnitude ~2*mag
        if not math.isfinite(e) or abs(e - e_ref) > (rt + 64 * eps * (mag + 1)) * e_ref:
            ctx.fail(f"{tag}ess", f"history.ess[{t - 1}]={e!r}, recomputed from population {t - 1} at beta {prev!r}->{b!r}: {e_ref!r}", case)
        et_ref = sc.ess_at(lw, prev, 1.0)
        et = float(env.to_np(h.ess_target[t - 1]))
        inc_1 = sc.incr(lw, prev, 1.0)
        mag1 = float(np.max(np.abs(inc_1[np.isfinite(inc_1)]))) if np.isfinite(inc_1).any() else 0.0
        if not math.isfinite(et) or abs(et - et_ref) > (rt + 64 * eps * (mag1 + 1)) * et_ref:
            ctx.fail(f"{tag}ess_target", f"history.ess_target[{t - 1}]={et!r}, recomputed {et_ref!r}", case)
        if case["adaptive"]:
            tau = sc.target_at(case, b)
            got = float(env.to_np(h.eff_target[t - 1]))
            if abs(got - tau) > 1e-12:
                ctx.fail(f"{tag}eff_target", f"history.eff_target[{t - 1}]={got!r}, target efficiency at beta={b!r} is {tau!r}", case)
        inc = sc.incr(lw, prev, b)
        fin = inc[np.isfinite(inc)]
        r_ref = refmath.log_mean_exp(inc)
        got_r = float(env.to_np(h.log_norm_ratio[t - 1]))
        tol_r = 64 * eps * ((float(np.max(np.abs(fin))) if len(fin) else 0) + 1) + n * eps
        if not math.isfinite(got_r) or abs(got_r - r_ref) > tol_r:
            ctx.fail(f"{tag}log_norm_ratio", f"history.log_norm_ratio[{t - 1}]={got_r!r}, recomputed {r_ref!r}", case)
        prev = b
    if not enlarged and r.samples is not None:
        last = pops[-1]
        if not np.array_equal(env.to_np(r.samples.x), env.to_np(last.x)) or not np.array_equal(
            env.to_np(r.samples.log_likelihood), env.to_np(last.log_likelihood)
        ):
            ctx.fail(f"{tag}final-is-last", "returned samples differ from the last stored population", case)


def _bookkeeping(case, h, n, enlarged, ctx, tag):
    """Length / temperature bookkeeping of a history, for every series the sampler populated."""
    betas = sc.floats(h.beta)
    n_it = len(betas)
    for name, v in vars(h).items():
        if name in ("beta", "sample_history") or not isinstance(v, list) or len(v) == 0:
            continue
        kernel = name.startswith("mcmc_")
        ok = len(v) == n_it + (1 if (kernel and enlarged) else 0)
        if not ok:
            ctx.fail(f"{tag}series-length" if not kernel else f"{tag}kernel-series-length",
                     f"history.{name} has {len(v)} entries for {n_it} iterations (enlargement={enlarged})", case, series=name)
    pops = h.sample_history
    if len(pops) != n_it + 1:
        ctx.fail(f"{tag}population-count", f"sample_history has {len(pops)} entries for {n_it} iterations (expected {n_it + 1})", case,
                 n_pops=len(pops), iterations=n_it)
        return n_it
    for t, p in enumerate(pops):
        want = 0.0 if t == 0 else betas[t - 1]
        if p.beta is None or float(p.beta) != want:
            ctx.fail(f"{tag}population-beta", f"sample_history[{t}].beta={p.beta!r}, expected {want!r}", case)
        if len(p.x) != n:
            ctx.fail(f"{tag}population-size", f"sample_history[{t}] has {len(p.x)} particles, run uses {n}", case)
    return n_it


def _emcee_mode(case, ctx):
    blobs, live = [], []

    def cb(state):
        blobs.append((state.get("iteration"), pickle.dumps(state)))
        live.append(state)

    labels = ["emcee_smc", case["ns"], str(case["width"]), "pre:" + case["pre"], "adaptive" if case.get("adaptive") else "fixed"]
    P = rc.Problem(case)
    samples, h = P.run(cb)
    if P.rejected:
        return {"nontrivial": False, "labels": labels + ["rejected:documented-NaN-ValueError"]}
    n = case["n"]
    enlarged = case.get("n_final") in ("smaller", "larger") and P.sample_kwargs().get("n_final_samples") != n
    n_it = _bookkeeping(case, h, n, enlarged, ctx, "")
    resumed_nontrivial = False
    if blobs:
        k = case["resume_pick"] % len(blobs)
        it, blob = blobs[k]
        src = live[k] if case["resume_form"] == "live-dict" else (blob if case["resume_form"] == "bytes" else pickle.loads(blob))
        P2 = rc.Problem(case)
        s2, h2 = P2.run(resume_from=src)
        labels.append(f"resume:{case['resume_form']}")
        if not P2.rejected:
            _bookkeeping(case, h2, n, enlarged, ctx, "resumed:")
            resumed_nontrivial = bool(it and it >= 1)
            labels.append("resume-from-final" if (it is not None and it >= n_it) else "resume-from-mid" if it else "resume-from-start")
    labels.append(f"iters:{'1' if n_it == 1 else '2-5' if n_it <= 5 else '>5'}")
    return {"nontrivial": n_it >= 2 or resumed_nontrivial, "labels": labels}


def run_case(case, ctx):
    if case.get("mode") == "emcee":
        return _emcee_mode(case, ctx)
    blobs = []

    live = []

    def cb(state):
        blobs.append((state.get("iteration"), pickle.dumps(state)))
        live.append(state)  # the very object handed to the callback, kept while the run goes on

    r = sc.run(case, extra_kwargs={"checkpoint_callback": cb, "checkpoint_every": case["ckpt_every"]})
    labels = [case["ns"], case["width"], case["kind"], case["kernel"], case["route"],
              "adaptive" if case["adaptive"] else "fixed"]
    if sc.run_failed(case, r, ctx, labels):
        return {"nontrivial": False, "labels": labels}
    check_history(case, r, ctx, "", labels)
    n_it = len(r.history.beta)
    resumed_nontrivial = False
    if blobs:
        it, blob = blobs[case["resume_pick"] % len(blobs)]
        if case["resume_form"] == "live-dict":
            src = live[case["resume_pick"] % len(blobs)]
        else:
            src = blob if case["resume_form"] == "bytes" else pickle.loads(blob)
        r2 = sc.run(case, extra_kwargs={"resume_from": src})
        labels.append(f"resume:{case['resume_form']}")
        if r2.error is not None:
            from ..runner import aspire_frame

            if aspire_frame(r2.error) is None:
                raise r2.error
            ctx.fail("resumed:raised", f"resuming from the checkpoint of iteration {it} raised {r2.error!r}", case)
        elif not r2.budget_hit:
            check_history(case, r2, ctx, "resumed:", labels)
            if len(r2.history.beta) != n_it:
                labels.append("resumed-length-differs(C11 decides)")
            resumed_nontrivial = bool(it and it >= 1)
            if it is not None and it >= n_it:
                labels.append("resume-from-final")
            elif it:
                labels.append("resume-from-mid")
    labels.append(f"iters:{'1' if n_it == 1 else '2-5' if n_it <= 5 else '>5'}")
    return {"nontrivial": n_it >= 2 or resumed_nontrivial, "labels": labels}
