"""C07 - adaptive temperature steps meet the ESS target and are maximal."""
from __future__ import annotations

import numpy as np
from hypothesis import strategies as st

from .. import refmath
from .. import smc_common as sc

ID = "C07"
LEVEL = "exploration"
BUDGET = {"quick": 2000, "thorough": 90000}
SHARDS = {"quick": 8, "thorough": 16}
RULE = (
    "case = adaptive SMC run (table proposal/likelihood => arbitrary generated log-weight population; frozen or "
    "random-walk kernel double; scalar or ramped target efficiency; min_step / max_n_steps; beta_tolerance via the "
    "base signature). Oracle per iteration t, from the stored population t-1: reference ESS curve "
    "E(b) = ESS of (L pi/q)^(b-beta_{t-1}) in float64; with tau = target at the start of the step: "
    "feasible E(beta_t)/N >= tau unless the step was forced by the floor (explicit min_step, the max_n_steps-derived floor) "
    "or is resolution-limited (<= beta_tolerance above beta_{t-1}); maximal beta_t == 1 or E(min(1,beta_t+tol))/N < tau. "
    "Non-trivial = an iteration whose beta_t < 1 was chosen by the search (feasible, not forced); counted per iteration, "
    "distinct = (case hash, iteration)."
)
RULE += " " + ('Also generated: runs on a sampler object that has already completed an unrelated run with another (ramped / scalar) target; another output namespace.')
RULE += " " + ('One case in eight runs emcee_smc on the continuous problem of the run-based checks with a ramped or scalar target and a rate in {0.25, 0.5, 1, 2}.')
ASSUMPTIONS = [
    "ESS(b) is monotone non-increasing in b, so the feasible set is an interval (used to state maximality at beta_t + tol only)",
    "reference ESS in float64 with relative slack 64*N*eps(width) + 64*eps*(max|incremental log w|+1); float32 populations have |log w| <= 10",
    "a step no larger than beta_tolerance above the previous temperature is accepted as resolution-limited (the search "
    "cannot resolve feasibility below its tolerance); see DESIGN.md C07",
    "kernel packages are harness doubles; populations are read from history.sample_history",
]


@st.composite
def _case(draw):
    if draw(st.integers(0, 7)) == 0:
        # the ensemble-kernel SMC variant: continuous problem of the run-based checks, ramped or scalar target with a rate
        lo = draw(st.floats(0.1, 0.5))
        return {"mode": "emcee", "sampler": "emcee_smc", "ns": "numpy", "width": "float64", "d": draw(st.integers(1, 2)), "pre": "none", "leak": 0.0,
                "n": draw(st.integers(24, 60)), "seed": draw(st.integers(0, 2**31 - 1)), "kernel_steps": draw(st.integers(1, 2)), "adaptive": True,
                "n_final": None, "ckpt_every": None, "resume_pick": None,
                "target": draw(st.sampled_from([[lo, min(0.95, lo + 0.4)], [lo, min(0.95, lo + 0.4)], lo + 0.2])),
                "rate": draw(st.sampled_from([0.25, 0.5, 1.0, 2.0])), "sharp": draw(st.sampled_from([1.0, 0.3]))}
    return draw(sc.table_case(adaptive=True, kmin=0))


def cases(tier):
    return _case()


def _emcee_mode(case, ctx):
    from .. import ckpt_common as cc

    labels = ["emcee_smc", "ramp" if isinstance(case["target"], list) else "scalar", f"rate:{case['rate']}"]
    P = cc.CkptProblem(case)
    _, h = P.run()
    if P.rejected:
        return {"nontrivial": False, "labels": labels + ["rejected:documented-NaN-ValueError"]}
    return _check_steps(case, h, ctx, labels)


def run_case(case, ctx):
    if case.get("mode") == "emcee":
        return _emcee_mode(case, ctx)
    r = sc.run(case)
    labels = [case["ns"], case["width"], case["kind"], case["kernel"], case["route"],
              "ramp" if isinstance(case.get("target"), (list, tuple)) else "scalar"]
    if sc.run_failed(case, r, ctx, labels):
        return {"nontrivial": False, "labels": labels}
    return _check_steps(case, r.history, ctx, labels)


def _check_steps(case, h, ctx, labels):
    betas = sc.floats(h.beta)
    pops = h.sample_history
    n = case["n"]
    tol = sc.tolerance_of(case)
    rt = sc.ess_rtol(case)
    keys = []
    if len(pops) != len(betas) + 1:
        labels.append("history-length-mismatch(skipped; C18 decides)")
        return {"nontrivial": False, "labels": labels}
    prev = 0.0
    for t, b in enumerate(betas, start=1):
        lw = sc.pop_log_w(pops[t - 1])
        tau = sc.target_at(case, prev)
        step = b - prev
        eff = sc.ess_at(lw, prev, b) / n
        inc_ = sc.incr(lw, prev, b)
        fin_ = inc_[np.isfinite(inc_)]
        # rounding of incremental log-weights of magnitude M perturbs the ESS by ~eps*M relative
        rt = sc.ess_rtol(case) + 64 * refmath.eps_of(case["width"]) * ((float(np.max(np.abs(fin_))) if len(fin_) else 0.0) + 1)
        forced = False
        if "min_step" in case:
            ms = case["min_step"]
            forced = abs(step - ms) <= 4e-16 * (1 + abs(b)) or (b == 1.0 and prev + ms >= 1.0)
        elif "max_n_steps" in case:
            forced = step >= (1.0 / case["max_n_steps"]) * (1 - 1e-9) or b == 1.0 and prev + 1.0 / case["max_n_steps"] >= 1.0
        limited = step <= tol * (1 + 1e-9)
        feasible = eff >= tau * (1 - rt)
        if not feasible and not forced and not limited:
            ctx.fail("target-not-met",
                     f"iteration {t}: beta {prev!r}->{b!r} gives efficiency {eff:.6g} < target {tau:.6g} (not a floor step)",
                     case, iteration=t, beta_prev=prev, beta=b, eff=eff, target=tau)
        if b < 1.0:
            b2 = min(1.0, b + tol * (1 + 1e-6))
            eff2 = sc.ess_at(lw, prev, b2) / n
            if eff2 >= tau * (1 + rt) and not (forced and not feasible):
                ctx.fail("not-maximal",
                         f"iteration {t}: beta_t={b!r} but beta_t+tol={b2!r} still has efficiency {eff2:.6g} >= target {tau:.6g}",
                         case, iteration=t, beta_prev=prev, beta=b, eff_at_beta_plus_tol=eff2, target=tau)
            if feasible and not forced and not limited:
                keys.append({"case": case, "iteration": t})
        else:
            # beta_t == 1: fine if feasible, or forced; otherwise the full step must have been the only option
            pass
        if forced and not feasible:
            labels.append("floor-forced-step")
        if limited and not feasible:
            labels.append("resolution-limited-step")
        prev = b
    labels.append(f"search-steps:{min(len(keys), 5)}{'+' if len(keys) > 5 else ''}")
    return {"nontrivial": bool(keys), "keys": keys, "labels": labels}
