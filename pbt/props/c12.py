"""C12 - an interrupted run always leaves a loadable, current checkpoint file."""
from __future__ import annotations

import os
import pickle

import numpy as np
from hypothesis import strategies as st

from .. import ckpt_common as cc
from .. import env
from ..runs_common import InjectedFault

ID = "C12"
LEVEL = "fault_enumeration"
BUDGET = {"quick": 64, "thorough": 4500}
SHARDS = {"quick": 8, "thorough": 16}
SHRINK = {"quick": False, "thorough": False}
RULE = (
    "(runs) configuration = SMC run with generated schedule, cadence 1..5, n_final_samples, preconditioning, namespace, N, seeds x "
    "(fresh file | file already holding a larger / smaller checkpoint from an earlier run) x (explicit checkpoint_path | "
    "auto_checkpoint context, optionally with fit() inside the same context) x fault kind (likelihood | prior); the harness logs every checkpoint write of the process and reads the "
    "HDF5 file after a fault injected at EVERY call index of the chosen kind. Oracle: in the uninterrupted run writes happen exactly "
    "at iterations {i : i mod cadence == 0} plus one forced final write; after any fault the file holds /aspire_config naming the "
    "sampler, /flow, and /checkpoint/state equal byte-for-byte (length included) to the most recent payload written, which is the "
    "payload of the last due iteration completed before the fault (or the earlier run's final payload if none was due yet); it "
    "unpickles and Aspire.resume_from_file loads it. (dump_state) generated sequences of payload sizes 0..200 kB, growing / shrinking "
    "/ equal, into one dataset: after every write the dataset equals the last payload. (continued) for two (thorough: four) crash "
    "points per configuration the file left behind is continued through Aspire.resume_from_file with the same arguments: its writes "
    "happen at the absolute iterations due under the cadence plus the final one, and after a second fault at each of its likelihood "
    "calls the file holds the continued run's latest payload or, before its first write, still the payload it was resumed from. "
    "Non-trivial = a crash after >=2 writes, or an overwrite with a different size; counted per (configuration, k)."
)
RULE += " " + ("Files are named .h5 / .hdf5 / .HDF5 and every file left by a fault is also read back through the sampler's own load_checkpoint_from_file (the resume_from='<file>' route).")
RULE += " " + ("Half of the continued runs receive the cadence through resume_from_file(resume_kwargs={'checkpoint_every': c}) instead of an auto_checkpoint context.")
ASSUMPTIONS = [
    "faults are exceptions raised at user-callable boundaries (as the property states); torn HDF5 writes are out of scope",
    "the write log is obtained by wrapping aspire.utils.dump_state as imported by aspire.samplers.base, inside the check process only",
    "kernel packages are harness doubles; runs raising the documented NaN ValueError are skipped",
]


@st.composite
def _case(draw):
    if draw(st.integers(0, 3)) == 0:
        n = draw(st.integers(1, 8))
        sizes = [draw(st.one_of(st.integers(0, 64), st.integers(0, 4096), st.integers(0, 200_000))) for _ in range(n)]
        return {"part": "dump_state", "sizes": sizes, "seed": draw(st.integers(0, 2**31 - 1)), "group": draw(st.sampled_from([None, "checkpoint", "a/b"]))}
    c = draw(cc.config_case(for_c12=True))
    c["part"] = "runs"
    return c


def cases(tier):
    return _case()


def _dump_state_part(case, ctx):
    from aspire.utils import AspireFile, dump_state

    d = cc.tmpdir()
    g = np.random.default_rng(case["seed"])
    nt = False
    try:
        path = os.path.join(d, "d.h5")
        prev = None
        for i, sz in enumerate(case["sizes"]):
            state = {"iteration": i, "payload": g.bytes(sz)}
            with AspireFile(path, "a") as h:
                dump_state(state, h, path=case["group"], dsetname="state")
            with AspireFile(path, "r") as h:
                tgt = h[case["group"]] if case["group"] else h
                got = tgt["state"][...].tobytes()
            want = pickle.dumps(state, protocol=pickle.HIGHEST_PROTOCOL)
            if got != want:
                ctx.fail("dump_state:content", f"after write {i} (payload {len(want)} bytes, previous {prev}) the dataset holds {len(got)} bytes "
                                               f"{'with a stale suffix' if got[:len(want)] == want else 'that differ from the payload'}", case, write=i)
            if prev is not None and prev != len(want):
                nt = True
            prev = len(want)
    finally:
        cc.rmtree(d)
    return {"nontrivial": nt, "labels": ["dump_state", f"writes:{len(case['sizes'])}"]}


def _continued(case, ctx, d, fk, k, payload, it0, n_it, c, labels, keys):
    """The file an interrupted run left is continued through Aspire.resume_from_file with the same arguments; that continued
    run is interrupted again at each of its likelihood calls. Before its first own write the file must still hold `payload`."""
    import shutil

    import minipcn
    from aspire import Aspire

    def cont(path, fault):
        P = cc.CkptProblem(case, fault=fault)
        minipcn.reset()
        minipcn.step_budget = 400
        try:
            with cc.WriteLog() as lg:
                try:
                    if k % 2 == 0:
                        A = Aspire.resume_from_file(path, log_likelihood=P.log_likelihood, log_prior=P.log_prior)
                        with A.auto_checkpoint(path, every=c):  # the documented way to keep checkpointing, with the same cadence
                            A.sample_posterior(**P.sample_kwargs(None, None, None))
                    else:  # the cadence handed over as an override of the resumed call
                        A = Aspire.resume_from_file(path, log_likelihood=P.log_likelihood, log_prior=P.log_prior,
                                                    resume_kwargs={"checkpoint_every": c})
                        A.sample_posterior(**P.sample_kwargs(None, None, None))
                    raised = False
                except InjectedFault:
                    raised = True
        finally:
            minipcn.reset()
        return P, lg, raised

    g0 = os.path.join(d, "cont" + cc.ext(case))
    shutil.copyfile(fk, g0)
    P0, lg0, _ = cont(g0, None)
    where0 = f"run interrupted at likelihood call {k} (checkpoint of iteration {it0}) and continued through resume_from_file"
    got = [w["iteration"] for w in lg0.writes]
    want = [i for i in range(it0 + 1, n_it + 1) if i % c == 0] + [n_it]
    if got != want:
        ctx.fail("continued:cadence", f"{where0}: checkpoints written at iterations {got}; cadence {c} up to iteration {n_it} requires {want}",
                 case, k=k, got=got, want=want)
    J = len(P0.calls)
    labels.append("continued")
    js = range(J) if (ctx.tier == "thorough" or J <= 8) else sorted(set(int(round(v)) for v in np.linspace(0, J - 1, 8)))
    for j in js:
        gj = os.path.join(d, "contj" + cc.ext(case))
        shutil.copyfile(fk, gj)
        Pj, lgj, raised = cont(gj, ("likelihood", j))
        if not raised:
            continue
        has_cfg, st_, has_flow, blob = cc.read_file(gj)
        where = f"{where0}, interrupted again at its likelihood call {j}/{J}"
        want_blob = lgj.writes[-1]["blob"] if lgj.writes else payload
        if not has_cfg or not has_flow:
            ctx.fail("continued:file-contents", f"{where}: file has config={has_cfg} flow={has_flow}", case, k=k, j=j)
        if blob is None:
            ctx.fail("continued:checkpoint-missing", f"{where}: the file holds no checkpoint any more ({len(lgj.writes)} written by the continued run; "
                                                     f"the checkpoint it was resumed from is gone)", case, k=k, j=j)
        elif blob != want_blob:
            ctx.fail("continued:checkpoint-bytes", f"{where}: /checkpoint/state is not the most recent payload "
                                                   f"({'that of the continued run' if lgj.writes else 'the one it was resumed from'})", case, k=k, j=j)
        if not lgj.writes:
            keys.append({"case": case, "k": k, "j": j})
        os.remove(gj)
    os.remove(g0)


def run_case(case, ctx):
    if case["part"] == "dump_state":
        return _dump_state_part(case, ctx)
    from aspire import Aspire

    d = cc.tmpdir()
    labels = ["runs", case["ns"], "pre:" + case["pre"], f"cadence:{case['ckpt_every']}", case["path_mode"], "file:" + case["preexisting"],
              "fault:" + case["fault_kind"]]
    keys = []
    auto = case["path_mode"] == "auto"
    try:
        def prepare(path):
            """Optionally leave an earlier, differently sized run's checkpoint in the file. Returns its final payload."""
            if case["preexisting"] == "fresh":
                return None
            c2 = dict(case)
            c2["n"] = case["n"] + 12 if case["preexisting"] == "larger" else max(4 if "affine" not in case["pre"] else 8, case["n"] - 5)
            c2["seed"] = case["seed"] + 1
            Pe = cc.CkptProblem(c2)
            with cc.WriteLog() as lg:
                try:
                    Pe.run_file(path, auto=auto)
                except ValueError as e:
                    if "NaN values" in str(e):
                        return None
                    raise
            return lg.writes[-1]["blob"] if lg.writes else None

        ref = os.path.join(d, "ref" + cc.ext(case))
        old = prepare(ref)
        P0 = cc.CkptProblem(case)
        with cc.WriteLog() as log0:
            try:
                s0, h0 = P0.run_file(ref, auto=auto)
            except ValueError as e:
                if "NaN values" in str(e):
                    return {"nontrivial": False, "labels": labels + ["rejected:documented-NaN-ValueError"]}
                raise
        n_it = len(h0.beta)
        c = case["ckpt_every"]
        if not log0.writes and cc.read_file(ref)[3] is not None:
            from ..runner import HarnessError

            raise HarnessError("the write log saw no checkpoint although the file holds one: aspire no longer writes through utils.dump_state "
                               "(harness needs updating; this is not a violation)")
        got_its = [w["iteration"] for w in log0.writes]
        want_its = cc.expected_write_iterations(n_it, c)
        if got_its != want_its:
            ctx.fail("cadence", f"checkpoints were written at iterations {got_its}; cadence {c} over {n_it} iterations requires {want_its}",
                     case, got=got_its, want=want_its)
        has_cfg, st_, has_flow, blob = cc.read_file(ref)
        if blob != log0.writes[-1]["blob"]:
            ctx.fail("final-file", "after the uninterrupted run the file does not hold the final payload byte-for-byte", case)
        if not has_cfg or st_ != "smc" or not has_flow:
            ctx.fail("file-contents", f"after the run: config={has_cfg} sampler_type={st_!r} flow={has_flow}", case)
        kind = case["fault_kind"]
        completed_list = P0.completed_at_call if kind == "likelihood" else P0.completed_at_prior
        T = len(completed_list)
        labels.append(f"crash-points:{'<20' if T < 20 else '20-60' if T <= 60 else '>60'}")
        # crash points whose file is afterwards continued through resume_from_file (and interrupted again at every call)
        n_cont = 4 if ctx.tier == "thorough" else 2
        cont_ks = set(int(round(v)) for v in np.linspace(0, T - 1, n_cont + 2)[1:]) if (kind == "likelihood" and not auto and T > 2) else set()
        for k in range(T):
            fk = os.path.join(d, f"f{k}" + cc.ext(case))
            oldk = prepare(fk)
            Pk = cc.CkptProblem(case, fault=(kind, k))
            with cc.WriteLog() as logk:
                try:
                    Pk.run_file(fk, auto=auto)
                    ctx.fail("fault-not-raised", f"harness: {kind} call {k} never happened in the repeated run", case, k=k)
                    continue
                except InjectedFault:
                    pass
            completed = completed_list[k]
            due = [i for i in range(1, completed + 1) if i % c == 0]
            got = [w["iteration"] for w in logk.writes]
            where = f"fault at {kind} call {k}/{T} ({completed} iterations completed)"
            if got != due:
                ctx.fail("cadence-before-fault", f"{where}: checkpoints written at {got}, due at {due}", case, k=k)
            has_cfg, st_, has_flow, blob = cc.read_file(fk)
            if not has_cfg or not has_flow:
                ctx.fail("file-contents", f"{where}: file has config={has_cfg} flow={has_flow}", case, k=k)
            elif st_ != "smc":
                ctx.fail("file-sampler-type", f"{where}: stored configuration names sampler {st_!r}", case, k=k)
            last = logk.writes[-1]["blob"] if logk.writes else None
            if last is None:
                # before this run's first write the file holds no checkpoint, or (older behaviour, equally consistent as far as
                # this property goes) still the earlier run's final payload - but never anything else
                if blob is not None and blob != oldk:
                    ctx.fail("unexpected-checkpoint", f"{where}: file holds a checkpoint that no run wrote", case, k=k)
                last = blob
            else:
                if blob is None:
                    ctx.fail("checkpoint-missing", f"{where}: file holds no checkpoint, {len(logk.writes)} were written", case, k=k)
                elif blob != last:
                    kind_ = "stale suffix" if blob[: len(last)] == last else ("truncated" if last[: len(blob)] == blob else "different bytes")
                    ctx.fail("checkpoint-bytes", f"{where}: /checkpoint/state has {len(blob)} bytes, the most recent payload has {len(last)} ({kind_})",
                             case, k=k, kind=kind_)
                else:
                    st_obj = pickle.loads(blob)
                    if logk.writes and st_obj.get("iteration") != (due[-1] if due else None):
                        ctx.fail("checkpoint-iteration", f"{where}: stored checkpoint is of iteration {st_obj.get('iteration')}, last due {due[-1] if due else None}", case, k=k)
            if blob is not None and Pk.aspire.sampler is not None:
                # the other documented route: the file name handed to resume_from= is read by the sampler's own loader
                ok_, st2 = ctx.guard("path-loader", Pk.aspire.sampler.load_checkpoint_from_file, str(fk), case=case)
                if ok_ and (not isinstance(st2, dict) or st2.get("iteration") != pickle.loads(blob).get("iteration")):
                    ctx.fail("path-loader", f"{where}: the checkpoint read back by file name is not the stored payload", case, k=k)
            if has_cfg and has_flow:
                A = Aspire.resume_from_file(fk, log_likelihood=Pk.log_likelihood, log_prior=Pk.log_prior)
                if (last is not None) != hasattr(A, "_resume_from_default"):
                    ctx.fail("resume-route", f"{where}: resume_from_file {'did not pick up' if last is not None else 'invented'} a checkpoint", case, k=k)
            if len(logk.writes) >= 2 or (oldk is not None and logk.writes and len(oldk) != len(logk.writes[-1]["blob"])):
                keys.append({"case": case, "k": k})
            if last is not None and logk.writes and has_cfg and has_flow and k in cont_ks:
                _continued(case, ctx, d, fk, k, last, pickle.loads(last).get("iteration"), n_it, c, labels, keys)
            try:
                os.remove(fk)
            except OSError:
                pass
        ctx.extra["crash_points"] = ctx.extra.get("crash_points", 0) + T
    finally:
        cc.rmtree(d)
    return {"nontrivial": bool(keys), "keys": keys, "labels": labels}
