"""C11 - resuming from any checkpoint reproduces the uninterrupted run."""
from __future__ import annotations

import os
import pickle

import numpy as np

from .. import ckpt_common as cc
from .. import env
from .. import runs_common as rc
from ..runs_common import InjectedFault

ID = "C11"
LEVEL = "fault_enumeration"
BUDGET = {"quick": 48, "thorough": 700}
SHARDS = {"quick": 8, "thorough": 16}
SHRINK = {"quick": False, "thorough": False}
RULE = (
    "configuration = SMC run (MiniPCN kernel double, analytic proposal registered as an aspire.flows entry point) with generated "
    "schedule options (adaptive/fixed, n_steps, min_step, max_n_steps, target), checkpoint cadence 1..4, n_final_samples in {None, <N, >N}, "
    "preconditioning option set, namespace in {numpy, torch}, width, N in [6,28], proposal leak, seeds. For each configuration: "
    "reference run R0 with file checkpointing; then for EVERY likelihood-call index k the run is repeated with an exception raised "
    "at call k, the last checkpoint written is taken and the run is resumed - as bytes, as dict, as file path, through "
    "Aspire.resume_from_file, as the state object the interrupted sampler still holds, as a plain .pkl file holding the payload, and as a dictionary that an earlier, itself interrupted, attempt to resume had already been given (quick tier: one route per k, cycling; thorough: all seven) - with the same arguments and freshly built "
    "generators of the same seed; every checkpoint of R0 is also resumed directly. Oracle: the resumed run equals R0 bitwise: "
    "history.beta, every stored population (all fields), final x / log L / log pi, log_evidence, log_evidence_error and every "
    "diagnostic series; a crash before the first checkpoint resumes from scratch through resume_from_file and again equals R0. "
    "Non-trivial = crash strictly after >=1 checkpoint was written and before the run finished; counted per (configuration, k)."
)
RULE += " " + ('Checkpoint files are named .h5 / .hdf5 / .HDF5; in half of the configurations the option dictionaries (sampler_kwargs incl. n_final_steps, preconditioning_kwargs) are created once and the same objects are passed to the interrupted and to every resumed run.')
ASSUMPTIONS = [
    "random sources are numpy Generators (their state is what the checkpoint payload stores); kernel packages are harness doubles",
    "emcee-based SMC is excluded: emcee is not given a generator by aspire, so its runs are not reproducible by construction",
    "the user's callables are deterministic",
    "runs that raise the documented 'contains NaN values' ValueError are skipped",
]
ROUTES = ["bytes", "dict", "path", "resume_from_file", "live-dict", "pkl-path", "dict-twice"]


def cases(tier):
    return cc.config_case()


def _resume(case, route, blob, path):
    """Run the resumed continuation; returns (samples, history) or raises."""
    from aspire import Aspire
    import minipcn

    P = cc.CkptProblem(case)
    minipcn.reset()
    minipcn.step_budget = 400
    try:
        if route == "resume_from_file":
            A = Aspire.resume_from_file(path, log_likelihood=P.log_likelihood, log_prior=P.log_prior)
            kw = P.sample_kwargs(None, None, None)
            return A.sample_posterior(**kw)
        src = {"bytes": blob, "dict": None, "path": str(path), "live-dict": blob, "pkl-path": None, "dict-twice": None}[route]
        if route == "dict":
            src = pickle.loads(blob)
        elif route == "dict-twice":
            # the user keeps the checkpoint dictionary; a first attempt to resume from it is interrupted at its second likelihood
            # call (or completes, if it has fewer); the run is then resumed again from the very same dictionary object
            src = pickle.loads(blob)
            P1 = cc.CkptProblem(case, fault=("likelihood", 1))
            try:
                P1.aspire.sample_posterior(**P1.sample_kwargs(None, src, None))
            except InjectedFault:
                pass
            minipcn.reset()
            minipcn.step_budget = 400
        elif route == "pkl-path":  # the payload written to a plain pickle file by the user, resumed by file name
            src = str(path) + ".ckpt.pkl"
            with open(src, "wb") as fh:
                fh.write(blob)
        kw = P.sample_kwargs(None, src, None)
        return P.aspire.sample_posterior(**kw)
    finally:
        minipcn.reset()


def run_case(case, ctx):
    tier_all = ctx.tier == "thorough"
    # in every other configuration the option dictionaries are defined once and passed, as the same objects, to the
    # interrupted run and to every resumed run ("the same sampling arguments")
    rc.SHARED.clear()
    rc.SHARED_ON[0] = case["seed"] % 2 == 1
    d = cc.tmpdir()
    labels = (["shared-argument-objects"] if rc.SHARED_ON[0] else []) + [case["ns"], str(case["width"]), "pre:" + case["pre"], "adaptive" if case["adaptive"] else "fixed",
              f"cadence:{case['ckpt_every']}", f"n_final:{case['n_final']}"]
    keys = []
    try:
        ref = os.path.join(d, "ref" + cc.ext(case))
        P0 = cc.CkptProblem(case)
        with cc.WriteLog() as log0:
            try:
                s0, h0 = P0.run_file(ref)
            except ValueError as e:
                if "NaN values" in str(e):
                    return {"nontrivial": False, "labels": labels + ["rejected:documented-NaN-ValueError"]}
                raise
        snap0 = cc.snapshot(s0, h0)
        T = len(P0.calls)
        n_it = len(h0.beta)
        labels.append(f"iters:{min(n_it, 9)}")
        labels.append(f"crash-points:{'<20' if T < 20 else '20-60' if T <= 60 else '>60'}")
        n_resumes = 0

        def compare(route, blob, path, where, k=None):
            nonlocal n_resumes
            n_resumes += 1
            try:
                s1, h1 = _resume(case, route, blob, path)
            except InjectedFault:
                raise
            except Exception as e:  # noqa: BLE001
                from ..runner import aspire_frame

                fr = aspire_frame(e)
                if fr is None:
                    raise
                ctx.fail(f"resume-raised:{route}:{type(e).__name__}@{fr}", f"{where}: resuming via {route} raised {type(e).__name__}: {e}",
                         case, route=route, k=k)
                return
            diff = cc.diff_snapshots(snap0, cc.snapshot(s1, h1))
            if not diff and route in ("resume_from_file",) and path is not None and log0.writes:
                # the resumed run keeps checkpointing into the file: its last payload must describe the same final state
                _, _, _, fin = cc.read_file(path)
                if fin is not None:
                    it = pickle.loads(fin).get("iteration")
                    if it != log0.writes[-1]["iteration"]:
                        diff = (f"the final checkpoint written by the resumed run says iteration {it}, the uninterrupted run's "
                                f"final checkpoint says {log0.writes[-1]['iteration']}")
            if diff:
                ctx.fail(f"resumed-differs:{route}", f"{where}, resumed via {route}: {diff}", case, route=route, k=k,
                         checkpoint_iteration=None if blob is None else (blob if isinstance(blob, dict) else pickle.loads(blob)).get("iteration"))

        # every checkpoint of the uninterrupted run, resumed directly
        for j, w in enumerate(log0.writes):
            for route in (["bytes", "dict"] if tier_all else [["bytes", "dict"][j % 2]]):
                compare(route, w["blob"], None, f"checkpoint #{j} (iteration {w['iteration']}) of the uninterrupted run")
        # every crash point
        for k in range(T):
            fk = os.path.join(d, f"fault{k}" + cc.ext(case))
            Pk = cc.CkptProblem(case, fault=("likelihood", k))
            with cc.WriteLog() as logk:
                try:
                    Pk.run_file(fk)
                    ctx.fail("fault-not-raised", f"harness: likelihood call {k} never happened in the repeated run (run is not deterministic?)", case, k=k)
                    continue
                except InjectedFault:
                    pass
            blob = logk.writes[-1]["blob"] if logk.writes else None
            completed = P0.completed_at_call[k]
            where = f"crash at likelihood call {k}/{T} ({completed} iterations completed, {len(logk.writes)} checkpoints written)"
            if blob is None:
                routes = ["resume_from_file"]
            else:
                routes = ROUTES if tier_all else [ROUTES[k % len(ROUTES)]]
                if 0 < completed < n_it or (completed == n_it and len(logk.writes) < len(log0.writes)):
                    keys.append({"case": case, "k": k})
            for route in routes:
                if route == "live-dict":
                    # the state object the interrupted sampler itself still holds (sampler.last_checkpoint_state)
                    live = Pk.aspire.sampler.last_checkpoint_state
                    if live is None:
                        continue
                    compare(route, live, fk, where, k)
                else:
                    compare(route, blob, fk, where, k)
            try:
                os.remove(fk)
            except OSError:
                pass
        ctx.extra["crash_points"] = ctx.extra.get("crash_points", 0) + T
        ctx.extra["resumed_runs"] = ctx.extra.get("resumed_runs", 0) + n_resumes
    finally:
        cc.rmtree(d)
    return {"nontrivial": bool(keys), "keys": keys, "labels": labels}
