"""C10 - cached per-particle log-densities always belong to the particle's coordinates."""
from __future__ import annotations

import pickle

import numpy as np

from .. import env, refmath
from .. import runs_common as rc

ID = "C10"
LEVEL = "exploration"
BUDGET = {"quick": 700, "thorough": 25000}
SHARDS = {"quick": 8, "thorough": 16}
RULE = (
    "case = whole run of sampler in {importance, smc, emcee_smc, minipcn, emcee} x preconditioning option set x namespace x "
    "width x proposal leaking 0-70% of its mass outside the prior support (forces reject / top-up / trim) x N x "
    "n_final_samples x schedule x checkpoint cadence x resume. User likelihood and prior are deterministic and row-injective. "
    "Oracle on the returned set, every history population and every checkpoint payload's population (also of the resumed run): "
    "stored log L / log pi of row i == the same callables re-evaluated on the stored coordinates of row i (4 ulp), stored log q == "
    "proposal.log_prob(row i) (1e-6 / 1e-3); initial population has exactly the requested size, finite prior everywhere, "
    "and each row's log q is the value the proposal handed out for that very point. "
    "Non-trivial = >=1 initial draw rejected and >=1 top-up round, or a resumed / enlarged run."
)
RULE += " " + ('After the first pass the read-only diagnostics (tempered density, weights, evidence ratio) are evaluated on every recorded population and the population is checked again.')
RULE += " " + ('Half of the bounded-map configurations use a wide clipping margin (eps = 0.2), so stored coordinates differ visibly from the pre-mutation ones.')
ASSUMPTIONS = [
    "kernel packages are harness doubles; the analytic proposal logs every batch it hands out",
    "re-evaluation tolerance 4*eps*(|v|+1): SIMD tails may round a row differently in another batch position",
    "BlackJAX sampler not exercised (package absent)",
]


def cases(tier):
    return rc.run_case()


def _width(case):
    if case["width"]:
        return case["width"]
    return "float32" if case["ns"] == "torch" else "float64"


def _check_set(P, ctx, case, s, where):
    if s is None or s.x is None:
        return
    eps = refmath.eps_of(env.width_of(s.x))
    x = s.x
    if x.ndim != 2:
        return
    L2, P2 = P.recompute(x)
    for name, ref in (("log_likelihood", L2), ("log_prior", P2)):
        v = getattr(s, name, None)
        if v is None:
            continue
        a = env.to_np(v).astype(np.float64).reshape(-1)
        b = np.asarray(ref, dtype=np.float64).reshape(-1)
        if a.shape != b.shape:
            ctx.fail("shape", f"{where}.{name} has {a.shape[0]} values for {b.shape[0]} rows", case, where=where.split('[')[0], field=name)
            continue
        with np.errstate(all="ignore"):
            bad = ~((a == b) | (np.isfinite(b) & (np.abs(a - b) <= 4 * eps * (np.abs(b) + 1))))
        if bad.any():
            j = int(np.argmax(bad))
            ctx.fail(f"stale:{name}", f"{where}.{name}[{j}]={a[j]!r} but the user's function at the stored coordinates of row {j} gives {b[j]!r}",
                     case, where=where.split('[')[0], field=name)
    lq = getattr(s, "log_q", None)
    if lq is not None:
        a = env.to_np(lq).astype(np.float64).reshape(-1)
        b = np.asarray(P.flow._log_q(x), dtype=np.float64).reshape(-1)
        tol = 1e-3 if eps > 1e-10 else 1e-6
        with np.errstate(all="ignore"):
            bad = ~((a == b) | (np.isfinite(b) & (np.abs(a - b) <= tol * (np.abs(b) + 1))))
        if bad.any():
            j = int(np.argmax(bad))
            ctx.fail("stale:log_q", f"{where}.log_q[{j}]={a[j]!r} but the proposal's log-density at the stored coordinates is {b[j]!r}",
                     case, where=where.split('[')[0], field="log_q")


def _check_initial(P, ctx, case, pop, handed):
    n = case["n"]
    if len(pop.x) != n:
        ctx.fail("initial:size", f"initial population has {len(pop.x)} particles, {n} requested", case)
    lp = env.to_np(pop.log_prior).astype(np.float64)
    if not np.isfinite(lp).all():
        ctx.fail("initial:prior", "initial population contains particles with non-finite prior", case)
    # pair every particle with the proposal draw it came from
    hx = np.concatenate([h[0] for h in handed])
    hq = np.concatenate([h[1] for h in handed])
    w = env.width_of(pop.x)
    cast = np.float32 if w == "float32" else np.float64
    hx_c = hx.astype(cast).astype(np.float64)
    px = env.to_np(pop.x).astype(np.float64)
    plq = env.to_np(pop.log_q).astype(np.float64)
    tol = 1e-3 if w == "float32" else 1e-9
    for i in range(len(px)):
        m = np.flatnonzero((hx_c == px[i]).all(-1))
        if len(m) == 0:
            ctx.fail("initial:origin", f"initial particle {i} is not one of the points the proposal handed out", case)
            return
        if not (np.abs(hq[m] - plq[i]) <= tol * (abs(plq[i]) + 1)).any():
            ctx.fail("initial:log_q-pairing", f"initial particle {i} carries log_q={plq[i]!r}; the proposal handed that point out with log_q={hq[m[0]]!r}", case)
            return


def run_case(case, ctx):
    P = rc.Problem(case)
    payloads = []
    smc = case["sampler"] in ("smc", "emcee_smc")
    cb = (lambda s: payloads.append(pickle.dumps(s))) if (smc and case.get("ckpt_every")) else None
    samples, hist = P.run(cb)
    if P.rejected:
        return {"nontrivial": False, "labels": [case["sampler"], "rejected:documented-NaN-ValueError"]}
    n_first_lik = P.calls[0]["n"] if P.calls else 0
    handed = list(P.flow.handed)
    labels = [case["sampler"], case["ns"], str(case["width"]), "pre:" + case["pre"], f"leak:{case['leak']}"]
    _check_set(P, ctx, case, samples, "returned")
    topup = False
    if hist is not None:
        for t, p in enumerate(hist.sample_history):
            _check_set(P, ctx, case, p, f"history.sample_history[{t}]")
        if hist.sample_history:
            # batches handed out before the first likelihood call form the initial population
            k = 0
            tot = 0
            x0 = env.to_np(hist.sample_history[0].x)
            init_batches = []
            for hb in handed:
                init_batches.append(hb)
                ok = P.P_ref(hb[0])
                tot += int(np.isfinite(ok).sum())
                if tot >= case["n"]:
                    break
            topup = len(init_batches) >= 2
            _check_initial(P, ctx, case, hist.sample_history[0], init_batches)
        # read-only diagnostics of the recorded populations (tempered density, weights, evidence ratio) leave them as they are
        for t, p in enumerate(hist.sample_history):
            for fn in ("log_p_t", "log_weights", "log_evidence_ratio"):
                if hasattr(p, fn):
                    try:
                        getattr(p, fn)(0.5 if p.beta is None else min(1.0, float(p.beta) + 0.25))
                    except ValueError as e:
                        if "NaN" not in str(e):
                            raise
            _check_set(P, ctx, case, p, f"after diagnostics: history.sample_history[{t}]")
        _check_set(P, ctx, case, samples, "after diagnostics: returned")
    for k, blob in enumerate(payloads):
        st = pickle.loads(blob)
        _check_set(P, ctx, case, st["samples"], f"checkpoint[{k}].samples")
        for t, p in enumerate(st["history"].sample_history):
            _check_set(P, ctx, case, p, f"checkpoint[{k}].history.sample_history[{t}]")
    resumed = False
    if payloads and case.get("resume_pick") is not None and case["sampler"] == "smc":
        blob = payloads[case["resume_pick"] % len(payloads)]
        P2 = rc.Problem(case)
        s2, h2 = P2.run(resume_from=blob)
        if not P2.rejected:
            _check_set(P2, ctx, case, s2, "resumed.returned")
            for t, p in enumerate(h2.sample_history):
                _check_set(P2, ctx, case, p, f"resumed.history.sample_history[{t}]")
        resumed = True
        labels.append("resumed")
    if topup:
        labels.append("top-up-round")
    enlarged = case.get("n_final") in ("smaller", "larger")
    return {"nontrivial": bool(topup or resumed or enlarged), "labels": labels}
