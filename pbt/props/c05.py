"""C05 - kernels are handed the correct (tempered) target in the preconditioned space."""
from __future__ import annotations

import math

import numpy as np
from hypothesis import strategies as st

from .. import env, refmath

ID = "C05"
LEVEL = "exploration"
BUDGET = {"quick": 1600, "thorough": 80000}
SHARDS = {"quick": 8, "thorough": 16}
RULE = (
    "case = sampler class (MiniPCNSMC, EmceeSMC, BlackJAXSMC.log_prob, MiniPCN, Emcee) x preconditioning (none, periodic, "
    "logit, probit, affine, bounded+affine, periodic+bounded, flow-based map with a tiny Zuko flow) x namespace x width x beta in (0,1] (tiny, generic, exactly 1) x "
    "points z (images of in-box points driven to the bounds, offsets into the tails, points outside the prior support when no "
    "bounded map is active, points outside the proposal's support) x generated Gaussian likelihood, hard-support uniform prior, "
    "analytic proposal (normal / logit-normal / uniform). The sampler is obtained from Aspire.init_sampler and its log_prob is "
    "called directly; in 1 of 6 cases the kernel double records every (z, value, beta) it was handed during a whole run. "
    "Oracle: the user callables record the coordinates they were asked about: these must be the pre-image of z (float64 "
    "closed forms for stateless maps; the transform's own inverse when an affine part is fitted), identical for L, pi and q, and "
    "value == (1-beta) log q + beta (log L + log pi) + log|det dx/dz| (beta=1, no q for MCMC) from the values the callables "
    "returned; zero prior => -inf; NaN tempered value => -inf in SMC; the evaluation leaves the array holding z untouched; the callables memoise per batch and hand the same array objects back, and a second evaluation at the same points returns the same values (nothing a user callable returned is modified in place). "
    "Non-trivial = preconditioning != none and beta < 1, or a zero-prior / NaN point present."
)
ASSUMPTIONS = [
    "value tolerance 64*eps*(sum of |terms|+1) + log-Jacobian conditioning term 8*eps/min(u,1-u) per bounded coordinate",
    "pre-image tolerance 64*eps*(|lower|+|upper|+width) (stateless maps) ",
    "for preconditioning with a fitted affine part or a flow-based map the pre-image and log-Jacobian reference is the transform's own inverse "
    "(whose correctness is C04's subject); the composition in log_prob is still checked independently",
    "BlackJAXSMC.mutate cannot run (blackjax absent); only its log_prob is exercised",
    "|z| offsets are limited so that sigmoid / erf do not saturate in the requested width (a saturated map has log-Jacobian -inf by rounding)",
]

SAMPLERS = ["smc", "smc", "emcee_smc", "blackjax_smc", "minipcn", "emcee"]
PRECOND = ["none", "periodic", "logit", "probit", "affine", "logit+affine", "probit+affine", "periodic+logit", "periodic+probit+affine"]


@st.composite
def _case(draw):
    sampler = draw(st.sampled_from(SAMPLERS))
    ns = draw(st.sampled_from(["numpy", "torch", "jax"]))
    if sampler == "blackjax_smc":
        ns = "jax"
    width = draw(st.sampled_from(["float32", "float64", "float64"]))
    d = draw(st.integers(1, 3))
    pre = draw(st.sampled_from(PRECOND))
    if ns in ("numpy", "torch") and sampler != "blackjax_smc" and draw(st.integers(0, 7)) == 0:
        pre = "flow"  # flow-based preconditioning map (tiny Zuko flow trained for 2 epochs on the fitting points)
    lo = [draw(st.sampled_from([0.0, -1.0, -5.0, 2.0, 100.0])) for _ in range(d)]
    hi = [l + draw(st.sampled_from([1.0, 2.0, 6.283185307179586, 10.0, 0.05])) for l in lo]
    n = draw(st.integers(1, 12))
    u = [[draw(st.one_of(st.floats(0.001, 0.999), st.floats(0.0, 1.0), st.sampled_from([0.0, 1.0, 0.5]),
                         st.builds(lambda k: 10.0**-k, st.integers(2, 7)),
                         st.builds(lambda k: 1 - 10.0**-k, st.integers(2, 7)))) for _ in range(d)] for _ in range(n)]
    off = [[draw(st.sampled_from([0.0, 0.0, 0.0, 0.5, -0.5, 3.0, -3.0, 8.0, -8.0])) for _ in range(d)] for _ in range(n)]
    beta = draw(st.one_of(st.just(1.0), st.floats(1e-8, 1.0), st.sampled_from([1e-6, 0.5, 0.999999])))
    qkind = draw(st.sampled_from(["normal", "normal", "logitnormal", "uniform"]))
    case = {
        "sampler": sampler, "ns": ns, "width": width, "d": d, "pre": pre, "lower": lo, "upper": hi, "u": u, "off": off,
        "beta": beta, "qkind": qkind,
        "mu": [draw(st.floats(0.1, 0.9)) for _ in range(d)], "sig": [draw(st.floats(0.05, 2.0)) for _ in range(d)],
        "qloc": [draw(st.floats(-1.0, 1.0)) for _ in range(d)], "qscale": [draw(st.floats(0.3, 3.0)) for _ in range(d)],
        "fit_seed": draw(st.integers(0, 2**31 - 1)),
        "periodic_dims": sorted(draw(st.sets(st.integers(0, d - 1), min_size=1, max_size=d))) if "periodic" in pre else [],
        "mode": "run" if (sampler in ("smc", "emcee_smc") and "affine" not in pre and pre != "flow" and draw(st.integers(0, 5)) == 0) else "direct",
        "seed": draw(st.integers(0, 2**31 - 1)),
    }
    case["nan_like"] = bool(draw(st.integers(0, 5)) == 0) and case["mode"] == "direct" and sampler in ("smc", "emcee_smc", "blackjax_smc")  # the NaN clause of the property is about SMC
    if case["mode"] == "run":
        # optionally a run that stops at the step cap (beta < 1) and is then enlarged: the final kernel must target beta = 1
        case["cap"] = draw(st.booleans())
        case["n_final"] = draw(st.sampled_from([None, 20, 9]))
    return case


def cases(tier):
    return _case()


class Recorder:
    def __init__(self):
        self.calls = {"L": [], "pi": [], "q": []}
        self.memo = {}


def _make(case, rec):
    """Aspire instance with recording callables and an analytic proposal."""
    from pbt_flows import AnalyticFlow

    from aspire import Aspire

    xp = env.xp_of(case["ns"])
    dt = env.native_dtype(case["ns"], case["width"])
    d = case["d"]
    lo = np.array(case["lower"], dtype=np.float64)
    hi = np.array(case["upper"], dtype=np.float64)
    w = hi - lo
    mu = lo + w * np.array(case["mu"])
    sig = w * np.array(case["sig"])

    # the callables memoise per batch (as an expensive user likelihood may): a repeated batch gets the SAME array object back
    def _memo(name, x, compute):
        key = (name, str(x.dtype), tuple(x.shape), env.to_np(x).tobytes())
        if key not in rec.memo:
            rec.memo[key] = compute()
        return rec.memo[key]

    def log_likelihood(samples):
        x = samples.x
        def compute():
            v = -0.5 * xp.sum(((x - xp.asarray(mu, dtype=x.dtype)) / xp.asarray(sig, dtype=x.dtype)) ** 2, axis=-1)
            if case.get("nan_like"):
                # a likelihood that is undefined (NaN) on the lower part of the first coordinate's range, at every temperature
                v = xp.where(x[:, 0] < float(lo[0] + 0.3 * w[0]), xp.asarray(float("nan"), dtype=x.dtype), v)
            return v

        val = _memo("L", x, compute)
        rec.calls["L"].append((env.to_np(x).astype(np.float64), env.to_np(val).astype(np.float64)))
        return val

    def log_prior(samples):
        x = samples.x

        def compute():
            inside = xp.all((x >= xp.asarray(lo, dtype=x.dtype)) & (x <= xp.asarray(hi, dtype=x.dtype)), axis=-1)
            return xp.where(inside, xp.asarray(-float(np.log(w).sum()), dtype=x.dtype), xp.asarray(-np.inf, dtype=x.dtype))

        val = _memo("pi", x, compute)
        rec.calls["pi"].append((env.to_np(x).astype(np.float64), env.to_np(val).astype(np.float64)))
        return val

    if case["qkind"] == "normal":
        flow = AnalyticFlow(d, kind="normal", loc=lo + w * (0.5 + 0.3 * np.array(case["qloc"])), scale=w * np.array(case["qscale"]), seed=case["seed"])
    elif case["qkind"] == "uniform":
        flow = AnalyticFlow(d, kind="uniform", lower=lo, upper=hi, seed=case["seed"])
    else:
        flow = AnalyticFlow(d, kind="logitnormal", loc=np.array(case["qloc"]), scale=np.array(case["qscale"]), lower=lo, upper=hi, seed=case["seed"])
    orig_lp = flow.log_prob

    def rec_log_prob(x, xp=None):
        val = orig_lp(x)
        rec.calls["q"].append((env.to_np(x).astype(np.float64), np.asarray(val, dtype=np.float64)))
        return val

    flow.log_prob = rec_log_prob
    params = [f"p{i}" for i in range(d)]
    a = Aspire(log_likelihood=log_likelihood, log_prior=log_prior, dims=d, parameters=params,
               prior_bounds={p: [float(lo[i]), float(hi[i])] for i, p in enumerate(params)},
               periodic_parameters=[params[i] for i in case["periodic_dims"]] or None,
               xp=xp, dtype=dt,
               **({"flow": flow, "flow_backend": "zuko", "hidden_features": [8], "transforms": 1, "seed": case["seed"] % 10**6}
                  if case["pre"] == "flow" else {"flow": flow, "flow_backend": "pbt_analytic"}))
    return a, flow, lo, hi


def _precond_kwargs(case):
    pre = case["pre"]
    if pre == "none":
        return "none", None
    if pre == "flow":
        return "flow", {"fit_kwargs": {"n_epochs": 2, "batch_size": 24}}
    kw = {"affine_transform": "affine" in pre, "bounded_to_unbounded": ("logit" in pre or "probit" in pre)}
    if "probit" in pre:
        kw["bounded_transform"] = "probit"
    elif "logit" in pre:
        kw["bounded_transform"] = "logit"
    return "default", kw


def _ref_inverse(case, z, lo, hi):
    """float64 closed-form pre-image and log|det dx/dz| for stateless preconditioning."""
    pre = case["pre"]
    z = np.asarray(z, dtype=np.float64)
    x = z.copy()
    lj = np.zeros(z.shape[0])
    cond = np.zeros(z.shape[0])
    d = case["d"]
    bounded = [i for i in range(d) if ("logit" in pre or "probit" in pre) and i not in case["periodic_dims"]]
    for i in bounded:
        if "probit" in pre:
            xi, l = refmath.probit_inv(z[:, [i]], lo[i], hi[i])
        else:
            xi, l = refmath.logit_inv(z[:, [i]], lo[i], hi[i])
        x[:, i] = xi[:, 0]
        lj += l
        uu = (xi[:, 0] - lo[i]) / (hi[i] - lo[i])
        with np.errstate(all="ignore"):
            cond += (1 + np.abs(z[:, i])) / np.maximum(np.minimum(uu, 1 - uu), 1e-300)
    for i in case["periodic_dims"]:
        wdt = hi[i] - lo[i]
        x[:, i] = lo[i] + np.mod(z[:, i] - lo[i], wdt)
    return x, lj, cond


def _points(case, a_sampler, lo, hi, xp, dt):
    """z points: images of in-box points (through the sampler's forward map) plus offsets."""
    w = hi - lo
    u = np.array(case["u"], dtype=np.float64)
    x = lo + w * u
    t = a_sampler.preconditioning_transform
    tx = xp.asarray(x, dtype=dt) if not hasattr(t, "xp") else t.xp.asarray(x, dtype=_dtype_for(t, case))
    z = env.to_np(t.forward(tx)[0]).astype(np.float64)
    off = np.array(case["off"], dtype=np.float64)
    lim = 10.0 if case["width"] == "float32" else 25.0
    if "probit" in case["pre"]:
        lim = 4.5 if case["width"] == "float32" else 7.5
    pre = case["pre"]
    if pre == "flow":
        z = z + np.clip(off, -3.0, 3.0)
    elif pre == "none" or pre == "periodic":
        z = z + off * w  # may leave the prior support
    else:
        z = np.clip(z + off, -lim, lim) if ("logit" in pre or "probit" in pre) else z + off
    return z


def _dtype_for(t, case):
    ns = "numpy" if "numpy" in t.xp.__name__ else ("torch" if "torch" in t.xp.__name__ else "jax")
    return env.native_dtype(ns, case["width"])


def _check_own_jacobian(case, ctx, t, z64, x_ref, lj_ref, lo, hi, tag):
    """The fitted (affine + elementwise bounded) map is diagonal, so log|det dx/dz| = sum_i log|dx_i/dz_i|: the log-Jacobian the transform reports
    (and the reference above adopts) is compared with central differences of the transform's own inverse map in float64. Rows where a difference
    is not resolvable (saturated tails) are skipped; this is what notices a log-Jacobian left over from an earlier fit."""
    e64 = np.finfo(np.float64).eps
    h = 1e-5 * (1.0 + np.abs(z64))
    dt = _dtype_for(t, case)
    xp_, _ = t.inverse(t.xp.asarray(z64 + h, dtype=dt))
    xm_, _ = t.inverse(t.xp.asarray(z64 - h, dtype=dt))
    dx = env.to_np(xp_).astype(np.float64) - env.to_np(xm_).astype(np.float64)
    scale = np.abs(lo) + np.abs(hi) + np.abs(x_ref)
    with np.errstate(all="ignore"):
        ok = np.isfinite(dx).all(-1) & (np.abs(dx) > 1e9 * e64 * scale).all(-1) & np.isfinite(lj_ref) & np.isfinite(z64).all(-1)
        lj_fd = np.log(np.abs(dx) / (2 * h)).sum(-1)
    for j in np.flatnonzero(ok):
        if abs(lj_fd[j] - lj_ref[j]) > 1e-3 * (1.0 + abs(lj_ref[j])) * z64.shape[1]:
            ctx.fail(f"{tag}own-jacobian", f"the preconditioning map reports log|dx/dz| = {lj_ref[j]!r} at z={z64[j].tolist()}; central differences of "
                                           f"its own inverse map give {lj_fd[j]!r}", case, index=int(j))
            break
    return int(ok.sum())


def _check_batch(case, ctx, sampler, z64, val, beta, rec, lo, hi, is_smc, tag=""):
    """Compare the values handed to the kernel for batch z with the reference. Returns (nontrivial_point_present)."""
    eps = refmath.eps_of(case["width"])
    n = z64.shape[0]
    val = env.to_np(val).astype(np.float64).reshape(-1)
    if val.shape[0] != n:
        ctx.fail(f"{tag}shape", f"target returned {val.shape[0]} values for {n} points", case)
        return False
    need = ["L", "pi"] + (["q"] if is_smc else [])
    for k in need:
        if len(rec.calls[k]) < 1:
            ctx.fail(f"{tag}not-evaluated", f"user callable {k} was not evaluated when the target was computed", case)
            return False
    xs = {k: rec.calls[k][-1][0].reshape(n, -1) for k in need}
    vs = {k: rec.calls[k][-1][1].reshape(-1) for k in need}
    # pre-image
    stateless = "affine" not in case["pre"] and case["pre"] != "flow"
    if stateless:
        x_ref, lj_ref, cond = _ref_inverse(case, z64, lo, hi)
    else:
        t = sampler.preconditioning_transform
        zi = t.xp.asarray(z64, dtype=_dtype_for(t, case))
        xr, ljr = t.inverse(zi)
        x_ref, lj_ref = env.to_np(xr).astype(np.float64), env.to_np(ljr).astype(np.float64)
        cond = np.zeros(n)
        if case["pre"] != "flow" and case["width"] == "float64" and not case["periodic_dims"]:
            _check_own_jacobian(case, ctx, t, z64, x_ref, lj_ref, lo, hi, tag)
    w = hi - lo
    t_x = 64 * eps * (np.abs(lo) + np.abs(hi) + w) * (1 + (np.abs(z64) if case["pre"] in ("none", "periodic") else 0))
    for k in need:
        bad = np.abs(xs[k] - x_ref) > t_x
        if case["periodic_dims"]:
            for i in case["periodic_dims"]:
                dd = np.abs(xs[k][:, i] - x_ref[:, i])
                bad[:, i] = np.minimum(dd, np.abs(w[i] - dd)) > t_x[:, i] if t_x.ndim == 2 else np.minimum(dd, np.abs(w[i] - dd)) > t_x[i]
        if bad.any():
            i = np.argwhere(bad)[0]
            ctx.fail(f"{tag}pre-image:{k}", f"{k} was evaluated at {xs[k][tuple(i)]!r}; the pre-image of z={z64[tuple(i)]!r} is {x_ref[tuple(i)]!r}", case, callable=k)
    with np.errstate(all="ignore"):
        if is_smc:
            ref = (1 - beta) * vs["q"] + beta * (vs["L"] + vs["pi"]) + lj_ref
            mag = np.abs((1 - beta) * np.where(np.isfinite(vs["q"]), vs["q"], 0)) + beta * (np.abs(vs["L"]) + np.abs(np.where(np.isfinite(vs["pi"]), vs["pi"], 0))) + np.abs(lj_ref)
        else:
            ref = vs["L"] + vs["pi"] + lj_ref
            mag = np.abs(vs["L"]) + np.abs(np.where(np.isfinite(vs["pi"]), vs["pi"], 0)) + np.abs(lj_ref)
    special = False
    for j in range(n):
        zero_prior = np.isneginf(vs["pi"][j])
        r = ref[j]
        if zero_prior:
            special = True
            if not (np.isneginf(val[j])):
                ctx.fail(f"{tag}zero-prior", f"point with zero prior got log-density {val[j]!r} (must be -inf)", case, index=j)
            continue
        if np.isnan(r):
            special = True
            if is_smc and not np.isneginf(val[j]):
                ctx.fail(f"{tag}nan-to-neginf", f"undefined (NaN) tempered value was handed to the kernel as {val[j]!r} (must be -inf)", case, index=j)
            continue
        if np.isinf(r):
            if val[j] != r:
                ctx.fail(f"{tag}value", f"target at point {j} is {val[j]!r}, reference {r!r}", case, index=j)
            continue
        tol = 64 * eps * (mag[j] + 1) + 8 * eps * cond[j]
        if not np.isfinite(val[j]) or abs(val[j] - r) > tol:
            ctx.fail(f"{tag}value", f"target at z={z64[j].tolist()} (beta={beta!r}) is {val[j]!r}; "
                                    f"(1-b) log q + b (log L + log pi) + log|dx/dz| = {r!r} (tol {tol:.3g})", case, index=j)
    return special


def run_case(case, ctx):
    import emcee
    import minipcn

    rec = Recorder()
    a, flow, lo, hi = _make(case, rec)
    if case["width"] == "float32":
        # the transforms hold the bounds in the requested width: the reference must use the same stored values
        lo = lo.astype(np.float32).astype(np.float64)
        hi = hi.astype(np.float32).astype(np.float64)
    xp = env.xp_of(case["ns"])
    dt = env.native_dtype(case["ns"], case["width"])
    pre, kw = _precond_kwargs(case)
    labels = [case["sampler"], case["ns"], case["width"], "pre:" + case["pre"], "q:" + case["qkind"], case["mode"]]
    beta = float(case["beta"])
    is_smc = case["sampler"] in ("smc", "emcee_smc", "blackjax_smc")
    if case["mode"] == "run":
        return _run_mode(case, ctx, a, rec, lo, hi, labels, pre, kw)
    sampler = a.init_sampler(case["sampler"], preconditioning=pre, preconditioning_kwargs=kw)
    w = hi - lo
    g = np.random.default_rng(case["fit_seed"])
    x_fit = lo + w * g.uniform(0.05, 0.95, size=(24, case["d"]))
    if "affine" in case["pre"] and case["fit_seed"] % 2 == 0:
        # the map is fitted anew at every SMC iteration: a first fit on a population of another location and spread precedes the one that counts
        x_fit0 = lo + w * (0.5 + (g.uniform(0.05, 0.95, size=(24, case["d"])) - 0.5) * 0.1)
        sampler.fit_preconditioning_transform(xp.asarray(x_fit0, dtype=dt))
        labels.append("refitted")
    sampler.fit_preconditioning_transform(xp.asarray(x_fit, dtype=dt))
    z64 = _points(case, sampler, lo, hi, xp, dt)
    if case["sampler"] in ("emcee_smc", "minipcn", "emcee"):
        z_in = np.asarray(z64, dtype=np.float32 if case["width"] == "float32" else np.float64)
    else:
        z_in = xp.asarray(z64, dtype=dt)
    z_used = env.to_np(z_in).astype(np.float64)
    for k in rec.calls:
        rec.calls[k].clear()
    if is_smc:
        val = sampler.log_prob(z_in, beta)
    else:
        val = sampler.log_prob(z_in)
        beta = 1.0
    z_after = env.to_np(z_in).astype(np.float64)
    if z_after.shape != z_used.shape or not np.array_equal(z_after, z_used, equal_nan=True):
        j = int(np.argmax(np.abs(z_after - z_used).max(-1))) if z_after.shape == z_used.shape else 0
        ctx.fail("kernel-point-overwritten", f"evaluating the target overwrote the kernel's own point: z[{j}] was {z_used[j].tolist()}, is now "
                                             f"{z_after[j].tolist()} (the kernel continues from a point whose value it was never given)", case,
                 sampler=case["sampler"], ns=case["ns"], pre=case["pre"])
    special = _check_batch(case, ctx, sampler, z_used, val, beta, rec, lo, hi, is_smc)
    # the same points evaluated again (kernels re-evaluate their ensemble): the callables hand back the arrays they returned before
    val_b = sampler.log_prob(z_in, beta) if is_smc else sampler.log_prob(z_in)
    a1, a2 = env.to_np(val).astype(np.float64), env.to_np(val_b).astype(np.float64)
    if a1.shape != a2.shape or not np.array_equal(a1, a2, equal_nan=True):
        j = int(np.argmax(~((a1 == a2) | (np.isnan(a1) & np.isnan(a2))))) if a1.shape == a2.shape else 0
        ctx.fail("re-evaluation-differs", f"evaluating the target twice at the same points gives {a1.reshape(-1)[j]!r} then {a2.reshape(-1)[j]!r}: "
                                          f"an array returned by a user callable was modified in place", case, sampler=case["sampler"], ns=case["ns"])
    if case.get("nan_like"):
        labels.append("likelihood-undefined-on-part-of-the-support")
    if special:
        labels.append("zero-prior-or-nan-point")
    labels.append("beta=1" if beta == 1.0 else "beta<1")
    return {"nontrivial": bool((case["pre"] != "none" and beta < 1.0) or special), "labels": labels}


def _run_mode(case, ctx, a, rec, lo, hi, labels, pre, kw):
    """Whole run: the kernel double reports every batch it evaluated."""
    import emcee
    import minipcn

    seen = []
    if case["sampler"] == "smc":
        minipcn.reset()

        def obs(z, lp):
            seen.append((env.to_np(z).astype(np.float64).copy(), lp, {k: (rec.calls[k][-1] if rec.calls[k] else None) for k in rec.calls}))

        minipcn.observer = obs
    else:
        emcee.reset()

        def obs(z, lp, args):
            seen.append((np.asarray(z, dtype=np.float64).copy(), lp, {k: (rec.calls[k][-1] if rec.calls[k] else None) for k in rec.calls}, args))

        emcee.observer = obs
    np.random.seed(case["seed"] % (2**32))
    kwargs = dict(n_samples=16, sampler=case["sampler"], preconditioning=pre, preconditioning_kwargs=kw, return_history=True)
    if case["sampler"] == "smc":
        kwargs.update(rng=np.random.default_rng(case["seed"]), sampler_kwargs={"n_steps": 2, "step_fn": "rw"})
    else:
        kwargs.update(sampler_kwargs={"nsteps": 2, "progress": False})
    if case.get("cap"):
        kwargs.update(adaptive=False, n_steps=5)
        if case["sampler"] == "smc":
            kwargs["max_n_steps"] = 2
    if case.get("n_final"):
        kwargs["n_final_samples"] = case["n_final"]
    try:
        samples, h = a.sample_posterior(**kwargs)
    finally:
        minipcn.reset()
        emcee.reset()
    betas = [float(b) for b in h.beta]
    if not seen:
        ctx.fail("run:no-evaluations", "kernel double never evaluated the target", case)
    nt = False
    # each mutate evaluates (steps+1) batches at one temperature; batches arrive in iteration order
    per = 3
    for bi, item in enumerate(seen):
        z, lp, calls = item[0], item[1], item[2]
        it = bi // per
        # batches after the last loop iteration belong to the final enlargement, whose population was resampled to beta = 1
        expected = betas[it] if it < len(betas) else 1.0
        beta = expected
        if len(item) > 3 and float(item[3][0]) != expected:
            ctx.fail("run:kernel-beta", f"kernel invocation {it + 1} was handed beta={float(item[3][0])!r}, the run is at {expected!r}", case)
        r2 = Recorder()
        for k in calls:
            if calls[k] is not None:
                r2.calls[k].append(calls[k])
        nt |= _check_batch(case, ctx, a.sampler, z, lp, beta, r2, lo, hi, True, tag="run:")
    labels.append(f"run-batches:{min(len(seen), 9)}")
    return {"nontrivial": bool(case["pre"] != "none" or nt), "labels": labels}
