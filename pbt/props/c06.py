"""C06 - the SMC temperature schedule strictly increases, ends exactly at 1, terminates."""
from __future__ import annotations

import math

import numpy as np

from .. import smc_common as sc

ID = "C06"
LEVEL = "exploration"
BUDGET = {"quick": 1600, "thorough": 90000}
SHARDS = {"quick": 8, "thorough": 16}
SHRINK = {"quick": True, "thorough": True}
RULE = (
    "case = whole SMC run through Aspire.sample_posterior(sampler='smc') or the SMCSampler.sample base "
    "signature (beta_tolerance), with a generated table proposal/likelihood so the initial log-weights are "
    "an arbitrary generated vector (spread 1e-3..1e8, ties, one dominant particle, -inf likelihood subset), "
    "frozen or random-walk kernel double, schedule options adaptive/fixed, n_steps 1..300, min_step, "
    "max_n_steps, scalar or ramped target efficiency, beta_tolerance, n_final_samples, namespace, width, seed. "
    "Oracle = invariants over the recorded temperature history + kernel-invocation budget (no wall clock). "
    "Non-trivial = >=2 iterations AND (a floor/cap option set OR log-weight spread > 1000 OR fixed n_steps "
    "whose repeated float addition of 1/n does not land exactly on 1.0); distinct = distinct case hash."
)
RULE += " " + ('Also generated: a third of the API runs ask for another output namespace; a quarter of the base-signature runs first complete an unrelated run (other schedule / target) on the same sampler object.')
RULE += " " + ('The exhaustive part also runs adaptive schedules whose every step is the floor (min_step = 1/k and decimal fractions, sharp continuous likelihood, target 0.98): they must end at exactly 1.0.')
ASSUMPTIONS = [
    "kernel packages minipcn/orng are harness doubles (pbt/doubles); aspire's loop, schedule, resampling and mutate code run unmodified",
    "termination is decided by a ranking argument: every iteration must raise beta by >= beta_tolerance/2 (or the floor); "
    "runs longer than 400 iterations are cut by the kernel double's invocation budget and counted as inconclusive, never as violations",
    "float32 populations are generated with log-weight magnitudes <= 10 so that float32 rounding does not decide the schedule",
]


def cases(tier):
    return sc.table_case()


def _float_sum_lands(n):
    b = 0.0
    step = 1 / n
    for _ in range(n):
        b += step
    return b == 1.0 or b >= 1.0


def run_case(case, ctx):
    r = sc.run(case)
    labels = [case["ns"], case["width"], case["kind"], case["kernel"], case["route"],
              "adaptive" if case["adaptive"] else "fixed"]
    for k in ("min_step", "max_n_steps", "n_final", "beta_tolerance"):
        if k in case:
            labels.append(k)
    if r.error is not None:
        e = r.error
        from ..runner import aspire_frame

        frame = aspire_frame(e) or "harness"
        if frame == "harness":
            raise e
        ctx.fail(f"raised:{type(e).__name__}@{frame}", f"valid schedule options made the run raise {type(e).__name__}: {e}",
                 case, exc=repr(e))
        return {"nontrivial": False, "labels": labels + ["known-raise"]}

    h = r.history
    betas = sc.floats(h.beta)
    tol = sc.tolerance_of(case)
    n_it = len(betas)
    # progress / monotonicity
    prev = 0.0
    for t, b in enumerate(betas):
        if not (b > prev):
            ctx.fail("no-progress", f"beta did not increase at iteration {t + 1}: {prev!r} -> {b!r} (run would spin forever)",
                     case, iteration=t + 1, beta_prev=prev, beta=b)
            return {"nontrivial": False, "labels": labels + ["known-no-progress"]}
        if not (0.0 < b <= 1.0):
            ctx.fail("range", f"beta[{t}]={b!r} outside (0,1]", case)
        prev = b
    if r.budget_hit:
        # inconclusive on length, but every recorded step made real progress
        floor = sc.step_floor(case)
        steps = np.diff([0.0] + betas)
        if len(steps) and float(np.min(steps)) < floor * (1 - 1e-9):
            ctx.fail("progress-floor", f"an iteration advanced beta by {float(np.min(steps))!r} < tolerance/2", case)
        return {"nontrivial": False, "labels": labels + ["inconclusive-budget"]}

    max_n = case.get("max_n_steps")
    if n_it == 0:
        ctx.fail("no-iterations", "run finished without a single iteration", case)
    last = betas[-1]
    if last != 1.0 and not (max_n is not None and n_it == max_n):
        ctx.fail("end", f"run ended with beta={last!r} after {n_it} iterations (max_n_steps={max_n})", case)
    if max_n is not None and n_it > max_n:
        ctx.fail("cap", f"{n_it} iterations with max_n_steps={max_n}", case)
    if 1.0 in betas[:-1]:
        ctx.fail("end", "beta reached 1.0 before the last iteration", case)
    if not case["adaptive"]:
        if n_it != case["n_steps"]:
            ctx.fail("fixed-count", f"fixed schedule n_steps={case['n_steps']} performed {n_it} iterations", case,
                     n_steps=case["n_steps"], iterations=n_it)
    else:
        ms = case.get("min_step")
        if ms is not None:
            steps = np.diff([0.0] + betas)
            for t, s in enumerate(steps):
                if s < ms * (1 - 1e-12) and betas[t] != 1.0:
                    ctx.fail("min-step", f"iteration {t + 1} advanced beta by {s!r} < min_step={ms}", case)
    # kernel invocations == iterations (+1 for a final enlargement)
    enlarged = ("n_final" in case) and case["n_final"] != case["n"]
    expect = n_it + (1 if enlarged else 0)
    if r.kernel_invocations != expect:
        ctx.fail("kernel-invocations", f"{r.kernel_invocations} kernel invocations for {n_it} iterations (enlargement={enlarged})", case)
    want_len = case.get("n_final", case["n"])
    if len(r.samples.x) != want_len:
        ctx.fail("final-size", f"returned {len(r.samples.x)} samples, requested {want_len}", case)

    ll, lq = sc.tables(case)
    fin = (ll - lq)[np.isfinite(ll - lq)]
    spread = float(fin.max() - fin.min()) if len(fin) else 0.0
    awkward_n = (not case["adaptive"]) and not _float_sum_lands_exact(case["n_steps"])
    nontrivial = n_it >= 2 and (
        ("min_step" in case) or ("max_n_steps" in case) or spread > 1000.0 or awkward_n
    )
    if awkward_n:
        labels.append("awkward-n_steps")
    labels.append(f"iters:{'1' if n_it == 1 else '2-5' if n_it <= 5 else '6-30' if n_it <= 30 else '>30'}")
    return {"nontrivial": bool(nontrivial), "labels": labels}


def extra(tier, ctx, seed):
    """Fixed schedules: every n_steps in a range, enumerated completely (float accumulation of 1/n is the risk)."""
    top = 64 if tier == "quick" else 300
    for n in range(1, top + 1):
        case = {"ns": "numpy", "width": "float64", "n": 4, "kind": "generic", "dims": 1, "ll": [0.0, 0.5, -0.25, 0.125], "lq": [0.0, 0.0, 0.0, 0.0],
                "kernel": "frozen", "kernel_steps": 1, "adaptive": False, "seed": int(seed), "route": "api", "n_steps": n, "part": "all-n_steps"}
        ctx.cell(case, run_case)
    # Adaptive schedules in which every step is forced by the floor (a Gaussian likelihood 100x narrower than the prior box, target
    # efficiency 0.98, one random-walk kernel step): the temperatures are repeated float additions of min_step and must end at exactly 1.0
    floors = sorted({1.0 / k for k in range(2, 31 if tier == "quick" else 121)} | {0.1, 0.2, 0.3, 0.7, 0.03, 0.07, 0.15, 0.35, 0.45})
    n_forced = 0
    for ms in floors:
        ctx.cell({"part": "forced-floor-ladder", "min_step": ms, "seed": int(seed)}, _ladder_cell)
        n_forced += 1
    return {"exhaustive_fixed_schedules": top, "forced_floor_ladders": n_forced,
            "exhaustive_note": f"every fixed schedule n_steps=1..{top} was run (4 particles, frozen kernel), and {n_forced} adaptive runs whose every step is the "
                               "floor (min_step = 1/k and some decimal fractions); the generated part is not exhaustive"}


def _ladder_cell(case, ctx):
    from .. import ckpt_common as cc

    c = {"sampler": "smc", "ns": "numpy", "width": "float64", "d": 2, "pre": "none", "leak": 0.0, "n": 40, "seed": 7 + case["seed"], "kernel_steps": 1,
         "adaptive": True, "n_final": None, "ckpt_every": None, "resume_pick": None, "target": 0.98, "min_step": case["min_step"], "sharp": 0.01}
    P = cc.CkptProblem(c)
    _, h = P.run()
    if P.rejected:
        return {"nontrivial": False, "labels": ["forced-floor-ladder", "rejected:documented-NaN-ValueError"]}
    betas = sc.floats(h.beta)
    prev = 0.0
    for t, b in enumerate(betas):
        if not (0.0 < b <= 1.0):
            ctx.fail("range", f"beta[{t}]={b!r} outside (0,1]", case)
        if not b > prev:
            ctx.fail("no-progress", f"beta did not increase at iteration {t + 1}: {prev!r} -> {b!r}", case)
        prev = b
    if not betas or betas[-1] != 1.0:
        ctx.fail("end", f"run with min_step={case['min_step']!r} ended with beta={betas[-1] if betas else None!r} after {len(betas)} iterations (no cap set)", case)
    forced = sum(1 for a, b in zip([0.0] + betas[:-1], betas) if abs((b - a) - case["min_step"]) <= 1e-12)
    return {"nontrivial": forced >= 2, "labels": ["forced-floor-ladder", f"forced-steps:{min(forced, 9)}"]}


def _float_sum_lands_exact(n):
    b = 0.0
    step = 1 / n
    for _ in range(n):
        b += step
    return b == 1.0
