"""Shared machinery: seed plumbing, sharding, known findings, evidence, replay.

A property module (pbt/props/cXX.py) provides

    ID, LEVEL, RULE, ASSUMPTIONS, BUDGET = {"quick": n, "thorough": n}
    def cases(tier)            -> hypothesis strategy of JSON-able case dicts
    def run_case(case, ctx)    -> {"nontrivial": bool, "labels": [...], "key": optional hashable}
    KNOWN_PREDICATES           -> {name: fn(case, details) -> bool}   (optional)
    SHARDS = {"quick": k, "thorough": k}                               (optional)
    SHRINK = {"quick": bool, "thorough": bool}                         (optional)
    def machine(tier, ctx)     -> RuleBasedStateMachine subclass       (optional, stateful)
    def extra(tier, ctx, seed) -> exhaustive / enumerated part, run once in the parent (optional)

`run_case` reports an oracle failure through ctx.fail(check, msg, case, **details).
A failure that matches an entry of known_findings.json (same property, same check name and
the entry's predicate accepts the case) is counted and excluded, everything else raises
Violation.  Exceptions that escape from aspire code are violations bucketed by
(exception type, innermost aspire frame); exceptions from harness code are harness errors.
"""

from __future__ import annotations

import hashlib
import importlib
import json
import math
import os
import sys
import time
import traceback
from collections import Counter
from pathlib import Path

ROOT = Path(__file__).resolve().parent.parent
REPO = Path(os.environ.get("ASPIRE_REPO", "/repo")).resolve()
ASPIRE_SRC = str(REPO / "src" / "aspire")


class Violation(Exception):
    def __init__(self, check, msg, details=None):
        super().__init__(f"[{check}] {msg}")
        self.check = check
        self.msg = msg
        self.details = details or {}


class HarnessError(Exception):
    pass


def jsonable(o):
    """Best effort conversion of a case/detail value to JSON-able data."""
    import numpy as np

    if isinstance(o, dict):
        return {str(k): jsonable(v) for k, v in o.items()}
    if isinstance(o, (list, tuple)):
        return [jsonable(v) for v in o]
    if isinstance(o, (str, bool)) or o is None:
        return o
    if isinstance(o, (int,)):
        return int(o)
    if isinstance(o, float):
        if math.isnan(o):
            return "nan"
        if math.isinf(o):
            return "inf" if o > 0 else "-inf"
        return o
    if isinstance(o, np.generic):
        return jsonable(o.item())
    if isinstance(o, np.ndarray):
        return jsonable(o.tolist())
    if isinstance(o, bytes):
        return {"__bytes_len__": len(o)}
    try:
        import array_api_compat as aac

        if aac.is_torch_array(o) or aac.is_jax_array(o):
            return jsonable(np.asarray(o).tolist())
    except Exception:
        pass
    return repr(o)


def case_hash(case) -> str:
    return hashlib.sha1(
        json.dumps(jsonable(case), sort_keys=True).encode()
    ).hexdigest()[:16]


def aspire_frame(exc) -> str | None:
    """Innermost traceback frame that lies in the aspire source tree, as 'file:func'."""
    found = None
    for fs in traceback.extract_tb(exc.__traceback__):
        fn = os.path.realpath(fs.filename)
        if fn.startswith(ASPIRE_SRC):
            found = f"{os.path.relpath(fn, ASPIRE_SRC)}:{fs.name}"
    return found


def load_known(prop_id):
    path = ROOT / "known_findings.json"
    if not path.exists():
        return []
    data = json.loads(path.read_text())
    return [
        e
        for e in data.get("findings", [])
        if e.get("property") == prop_id and e.get("status") == "known"
    ]


class Ctx:
    """Per-process collector handed to run_case."""

    def __init__(self, module, tier):
        self.module = module
        self.prop_id = module.ID
        self.tier = tier
        self.known = load_known(module.ID)
        self.preds = getattr(module, "KNOWN_PREDICATES", {})
        self.evaluations = 0
        self.nontrivial = set()
        self.labels = Counter()
        self.known_hits = Counter()
        self.samples = []
        self.nontrivial_samples = []
        self.extra = {}
        self.failures = []  # collected by enumerations that continue after a failing cell

    def cell(self, case, fn):
        """Run one cell of an enumeration; collect (not raise) its violation so the sweep continues."""
        try:
            res = fn(case, self)
            self.record(case, res)
            return True
        except Violation as v:
            self.failures.append({"check": v.check, "msg": v.msg, "details": v.details, "case": jsonable(case)})
            return False
        except Exception as e:  # noqa: BLE001
            frame = aspire_frame(e)
            if frame is None:
                raise
            try:
                self.fail(f"exception:{type(e).__name__}@{frame}", f"{type(e).__name__}: {e}", case, exc=repr(e))
                self.record(case, {"nontrivial": False, "labels": ["known-exception"]})
                return True
            except Violation as v:
                self.failures.append({"check": v.check, "msg": v.msg, "details": v.details, "case": jsonable(case)})
                return False

    # --- oracle failure ---------------------------------------------------
    def fail(self, check, msg, case=None, **details):
        for e in self.known:
            if e.get("check") != check:
                continue
            pred = self.preds.get(e.get("predicate"))
            if pred is None:
                continue
            try:
                ok = bool(pred(case, details))
            except Exception:
                ok = False
            if ok:
                self.known_hits[e["id"]] += 1
                return False
        raise Violation(check, msg, jsonable(details))

    def guard(self, check, fn, *a, case=None, allowed=(), **kw):
        """Call aspire code; an exception not in `allowed` is an oracle failure
        bucketed by type and innermost aspire frame. Returns (ok, value)."""
        try:
            return True, fn(*a, **kw)
        except Violation:
            raise
        except allowed as e:  # documented rejection
            return False, e
        except Exception as e:  # noqa: BLE001
            frame = aspire_frame(e)
            if frame is None:
                raise
            bucket = f"{check}:raised:{type(e).__name__}@{frame}"
            self.fail(bucket, f"{type(e).__name__}: {e}", case, exc=repr(e))
            return False, e

    # --- bookkeeping ------------------------------------------------------
    def record(self, case, res):
        self.evaluations += 1
        res = res or {}
        for lab in res.get("labels", []):
            self.labels[lab] += 1
        if res.get("nontrivial"):
            keys = res.get("keys")
            if keys is None:
                key = res.get("key")
                keys = [key if key is not None else case]
            ch = case_hash(case)
            for key in keys:
                h = case_hash(key) if key is not case else ch
                if h not in self.nontrivial and len(self.nontrivial_samples) < 3:
                    self.nontrivial_samples.append(jsonable(case))
                self.nontrivial.add(h)
        if len(self.samples) < 2:
            self.samples.append(jsonable(case))

    def summary(self):
        return {
            "evaluations": self.evaluations,
            "nontrivial": sorted(self.nontrivial),
            "labels": dict(self.labels),
            "known_hits": dict(self.known_hits),
            "samples": self.samples + self.nontrivial_samples,
            "extra": self.extra,
        }


def _exec_case(module, case, ctx):
    """Run one case; convert stray aspire exceptions to violations."""
    try:
        res = module.run_case(case, ctx)
    except Violation:
        raise
    except Exception as e:  # noqa: BLE001
        if type(e).__module__.startswith("hypothesis"):
            raise
        frame = aspire_frame(e)
        if frame is None:
            raise HarnessError(
                f"harness exception in run_case: {type(e).__name__}: {e}\n"
                + traceback.format_exc()
            ) from e
        ctx.fail(
            f"exception:{type(e).__name__}@{frame}",
            f"{type(e).__name__}: {e}",
            case,
            exc=repr(e),
            tb=traceback.format_exc()[-1500:],
        )
        res = {"nontrivial": False, "labels": ["known-exception"]}
    ctx.record(case, res)
    return res


def shard_worker(args):
    prop_id, tier, seed, shard, n_examples, do_shrink = args
    t0 = time.time()
    out = {"shard": shard, "failure": None, "error": None}
    try:
        import hypothesis
        from hypothesis import HealthCheck, Phase, given, settings

        from . import env  # noqa: F401  (numeric setup)

        module = importlib.import_module(f"pbt.props.{prop_id.lower()}")
        ctx = Ctx(module, tier)
        last = {}
        phases = [Phase.explicit, Phase.generate]
        if do_shrink:
            phases.append(Phase.shrink)
        st_settings = settings(
            max_examples=n_examples,
            database=None,
            deadline=None,
            derandomize=False,
            report_multiple_bugs=False,
            phases=phases,
            suppress_health_check=list(HealthCheck),
            stateful_step_count=getattr(module, "STEP_COUNT", {}).get(tier, 12),
            print_blob=False,
        )
        hseed = int(seed) * 1000 + shard
        try:
            if hasattr(module, "machine"):
                from hypothesis.stateful import run_state_machine_as_test

                Machine = module.machine(tier, ctx, last)
                run_state_machine_as_test(
                    hypothesis.seed(hseed)(Machine), settings=st_settings
                )
            else:

                @hypothesis.seed(hseed)
                @settings(st_settings)
                @given(module.cases(tier))
                def prop(case):
                    try:
                        _exec_case(module, case, ctx)
                    except Violation as v:
                        last["case"] = case
                        last["violation"] = v
                        raise

                prop()
        except Violation as v:
            out["failure"] = {
                "check": v.check,
                "msg": v.msg,
                "details": v.details,
                "case": jsonable(last.get("case")),
            }
        except HarnessError as e:
            out["error"] = str(e)
        except Exception as e:  # noqa: BLE001
            v = last.get("violation")
            if v is not None and "Flaky" in type(e).__name__:
                out["failure"] = {
                    "check": v.check,
                    "msg": v.msg + " (not reproduced on re-execution: flaky)",
                    "details": v.details,
                    "case": jsonable(last.get("case")),
                }
            else:
                out["error"] = (
                    f"{type(e).__name__}: {e}\n" + traceback.format_exc()
                )
        out.update(ctx.summary())
    except Exception as e:  # noqa: BLE001
        out["error"] = f"{type(e).__name__}: {e}\n" + traceback.format_exc()
    out["wall_s"] = time.time() - t0
    return out


def write_replay(prop_id, failure, seed, tier):
    d = ROOT / "replays" / prop_id
    d.mkdir(parents=True, exist_ok=True)
    name = f"{failure['check'].replace('/', '_').replace(':', '_')[:80]}-{case_hash(failure['case'])}.json"
    path = d / name
    payload = {
        "property": prop_id,
        "check": failure["check"],
        "message": failure["msg"],
        "details": failure.get("details"),
        "case": failure["case"],
        "seed": seed,
        "tier": tier,
        "aspire_commit": git_head(),
    }
    path.write_text(json.dumps(payload, indent=1, sort_keys=True))
    return path


def git_head():
    try:
        import subprocess

        return subprocess.run(
            ["git", "-C", str(REPO), "rev-parse", "HEAD"],
            capture_output=True,
            text=True,
            timeout=10,
        ).stdout.strip()
    except Exception:
        return "unknown"


def validate_evidence(ev):
    schema_path = Path("/root/.vp/EVIDENCE.schema.json")
    local = ROOT / "pbt" / "EVIDENCE.schema.json"
    sp = schema_path if schema_path.exists() else local
    try:
        import jsonschema

        jsonschema.validate(ev, json.loads(sp.read_text()))
        return None
    except ImportError:
        pass
    except Exception as e:  # noqa: BLE001
        return f"evidence does not validate: {e}"
    cov = ev.get("coverage", {})
    for k in ("evaluations", "distinct_nontrivial", "rule", "samples"):
        if k not in cov:
            return f"evidence coverage lacks {k}"
    if cov["evaluations"] < 1 or cov["distinct_nontrivial"] < 2 or not cov["samples"]:
        return "evidence coverage counts too small"
    return None


def run_replay(module, path, tier):
    from . import env  # noqa: F401

    data = json.loads(Path(path).read_text())
    case = data["case"] if "case" in data else data
    ctx = Ctx(module, tier)
    try:
        _exec_case(module, case, ctx)
    except Violation as v:
        print(f"replay: violation [{v.check}] {v.msg}")
        print(f"VIOLATION property={module.ID} replay={path}")
        return 1
    for k, n in ctx.known_hits.items():
        print(f"KNOWN-FINDING: property={module.ID} {k} (replayed case matches a listed finding)")
    print(f"replay: case passes ({path})")
    return 0


def run_check(prop_id, tier, seed, replay=None, examples=None, shards=None):
    t0 = time.time()
    module = importlib.import_module(f"pbt.props.{prop_id.lower()}")
    if replay:
        return run_replay(module, replay, tier)

    from . import env  # noqa: F401

    failures = []
    errors = []
    merged = Ctx(module, tier)

    # 1. regression corpus (plain re-execution, no hypothesis)
    corpus_dir = ROOT / "corpus" / prop_id
    n_corpus = 0
    if corpus_dir.is_dir():
        for f in sorted(corpus_dir.glob("*.json")):
            data = json.loads(f.read_text())
            case = data["case"] if "case" in data else data
            n_corpus += 1
            try:
                res = _exec_case(module, case, merged)
                merged.labels["corpus"] += 1
            except Violation as v:
                failures.append(
                    {"check": v.check, "msg": v.msg, "details": v.details,
                     "case": jsonable(case), "corpus_file": str(f)}
                )
            except HarnessError as e:
                errors.append(f"corpus {f}: {e}")

    # 2. enumerated / exhaustive part
    extra_info = None
    if hasattr(module, "extra"):
        try:
            extra_info = module.extra(tier, merged, seed)
        except Violation as v:
            failures.append(
                {"check": v.check, "msg": v.msg, "details": v.details,
                 "case": jsonable(v.details.get("case"))}
            )
        except Exception as e:  # noqa: BLE001
            errors.append(f"extra: {type(e).__name__}: {e}\n{traceback.format_exc()}")

    failures.extend(merged.failures)

    # 3. generated search, sharded
    n_total = examples or module.BUDGET[tier]
    n_shards = shards or getattr(module, "SHARDS", {}).get(tier, 8 if tier == "quick" else 16)
    n_shards = max(1, min(n_shards, os.cpu_count() or 1, n_total))
    per = max(1, math.ceil(n_total / n_shards))
    do_shrink = getattr(module, "SHRINK", {}).get(tier, True)
    jobs = [(prop_id, tier, seed, s, per, do_shrink) for s in range(n_shards)]
    results = []
    if n_total > 0:
        if n_shards == 1:
            results = [shard_worker(jobs[0])]
        else:
            import multiprocessing as mp

            mpctx = mp.get_context("spawn")
            with mpctx.Pool(n_shards) as pool:
                results = pool.map(shard_worker, jobs, chunksize=1)

    shard_walls = []
    for r in results:
        shard_walls.append(round(r.get("wall_s", 0.0), 2))
        if r.get("error"):
            errors.append(f"shard {r['shard']}: {r['error']}")
        if r.get("failure"):
            failures.append(r["failure"])
        merged.evaluations += r.get("evaluations", 0)
        merged.nontrivial.update(r.get("nontrivial", []))
        merged.labels.update(r.get("labels", {}))
        merged.known_hits.update(r.get("known_hits", {}))
        for s in r.get("samples", []):
            if len(merged.samples) < 6:
                merged.samples.append(s)
        for k, v in (r.get("extra") or {}).items():
            if isinstance(v, (int, float)):
                merged.extra[k] = merged.extra.get(k, 0) + v
            else:
                merged.extra.setdefault(k, v)

    # distinct failures by check bucket
    seen = {}
    for f in failures:
        seen.setdefault(f["check"], f)
    failures = list(seen.values())

    known_lines = []
    for e in merged.known:
        n = merged.known_hits.get(e["id"], 0)
        known_lines.append(
            f"KNOWN-FINDING: property={prop_id} {e['id']}: {e['what']} [cases excluded this run: {n}]"
        )

    wall = time.time() - t0
    coverage = {
        "evaluations": int(merged.evaluations),
        "distinct_nontrivial": int(len(merged.nontrivial)),
        "rule": module.RULE,
        "samples": (merged.samples + merged.nontrivial_samples)[:8] or ["<none>"],
        "classes": dict(sorted(merged.labels.items())),
        "excluded_known": dict(merged.known_hits),
        "corpus_cases_replayed": n_corpus,
        "shards": len(jobs) if n_total > 0 else 0,
        "examples_per_shard": per,
        "shard_wall_s": shard_walls,
        "shrinking": bool(do_shrink),
        "generator": "hypothesis %s, seed=VERIF_SEED*1000+shard" % _hyp_version(),
    }
    if extra_info:
        coverage.update(extra_info)
    coverage.update({k: v for k, v in merged.extra.items() if k not in coverage})
    ev = {
        "property_id": prop_id,
        "tier": tier,
        "seed": int(seed),
        "level": module.LEVEL,
        "coverage": coverage,
        "assumptions": list(getattr(module, "ASSUMPTIONS", [])),
        "wall_s": round(wall, 2),
        "violations": len(failures),
        "aspire_commit": git_head(),
        "harness_errors": errors[:5],
    }
    evdir = ROOT / "evidence"
    evdir.mkdir(exist_ok=True)
    (evdir / f"{prop_id}.json").write_text(json.dumps(jsonable(ev), indent=1, sort_keys=True))

    for line in known_lines:
        print(line)
    print(
        f"{prop_id} {tier} seed={seed}: evaluations={merged.evaluations} "
        f"distinct_nontrivial={len(merged.nontrivial)} violations={len(failures)} "
        f"known_excluded={sum(merged.known_hits.values())} wall={wall:.1f}s"
    )
    print("classes:", json.dumps(dict(sorted(merged.labels.items()))))

    if failures:
        for f in failures:
            path = write_replay(prop_id, f, seed, tier)
            print(f"violation [{f['check']}] {f['msg'][:400]}")
            print(f"VIOLATION property={prop_id} replay={path}")
        return 1
    if errors:
        for e in errors[:3]:
            print("HARNESS-ERROR:", e, file=sys.stderr)
        return 2
    problem = validate_evidence(jsonable(ev))
    if problem:
        print("HARNESS-ERROR:", problem, file=sys.stderr)
        return 2
    return 0


def _hyp_version():
    try:
        import hypothesis

        return hypothesis.__version__
    except Exception:
        return "?"


# ---- stateful support ------------------------------------------------------------------------
def apply_op(module, state, op, ctx, case):
    """Execute one operation of a history; stray aspire exceptions become bucketed violations."""
    try:
        return module.apply(state, op, ctx, case)
    except Violation:
        raise
    except Exception as e:  # noqa: BLE001
        if type(e).__module__.startswith("hypothesis"):
            raise
        frame = aspire_frame(e)
        if frame is None:
            raise HarnessError(
                f"harness exception in apply({op.get('op')}): {type(e).__name__}: {e}\n" + traceback.format_exc()
            ) from e
        ctx.fail(f"{op.get('op')}:raised:{type(e).__name__}@{frame}", f"{type(e).__name__}: {e}", case,
                 op=op, exc=repr(e), tb=traceback.format_exc()[-1200:])
        return "known-exception"


def replay_ops(module, case, ctx):
    """run_case for op-sequence modules: new state, apply every op, finish."""
    state = module.new_state()
    try:
        for op in case["ops"]:
            apply_op(module, state, op, ctx, case)
        return module.finish(state)
    finally:
        if hasattr(module, "cleanup"):
            module.cleanup(state)


def ops_machine_base(module, ctx, last):
    """Base RuleBasedStateMachine: subclasses add @rule methods that call self.do({...})."""
    from hypothesis.stateful import RuleBasedStateMachine

    class OpsMachine(RuleBasedStateMachine):
        def __init__(self):
            super().__init__()
            self.ops = []
            self.state = module.new_state()

        def do(self, op):
            self.ops.append(op)
            case = {"ops": self.ops}
            try:
                return apply_op(module, self.state, op, ctx, case)
            except Violation as v:
                last["case"] = {"ops": list(self.ops)}
                last["violation"] = v
                raise

        def teardown(self):
            try:
                res = module.finish(self.state)
                if self.ops:
                    ctx.record({"ops": list(self.ops)}, res)
            finally:
                if hasattr(module, "cleanup"):
                    module.cleanup(self.state)

    return OpsMachine
