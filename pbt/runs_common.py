"""Whole-run harness shared by C10 and C17 (and C20): every sampler, with recording user callables.

The likelihood and prior are deterministic, row-injective functions (a row mix-up changes the value);
the proposal is the analytic double, which logs every (x, log q) batch it hands out.  A generated
fraction of the proposal's mass lies outside the prior's hard support, which forces the
rejection / top-up / trim path of the initial population.
"""
from __future__ import annotations

import pickle

import numpy as np
from hypothesis import strategies as st

from . import env

SAMPLERS = ["importance", "smc", "smc", "emcee_smc", "minipcn", "emcee"]


@st.composite
def run_case(draw, samplers=SAMPLERS):
    sampler = draw(st.sampled_from(samplers))
    d = draw(st.integers(1, 3))
    pre = draw(st.sampled_from(["none", "default", "default+affine", "default+logit", "default+probit+affine", "periodic"]))
    if sampler == "importance":
        pre = draw(st.sampled_from(["none", "none", "default"]))
    min_n = 8 if "affine" in pre else 2
    case = {
        "sampler": sampler, "ns": draw(st.sampled_from(["numpy", "numpy", "torch", "jax"])),
        "width": draw(st.sampled_from([None, "float32", "float64", "float64"])), "d": d, "pre": pre,
        "leak": draw(st.sampled_from([0.0, 0.0, 0.2, 0.5, 0.7])),
        "n": draw(st.one_of(st.integers(min_n, 12), st.integers(min_n, 48))),
        "seed": draw(st.integers(0, 2**31 - 1)),
        "kernel_steps": draw(st.integers(1, 3)),
    }
    if sampler in ("smc", "emcee_smc"):
        case["adaptive"] = draw(st.booleans())
        if not case["adaptive"]:
            case["n_steps"] = draw(st.integers(1, 6))
        case["n_final"] = draw(st.sampled_from([None, None, "smaller", "larger"]))
        case["ckpt_every"] = draw(st.sampled_from([None, 1, 2]))
        case["resume_pick"] = draw(st.one_of(st.none(), st.integers(0, 20)))
    return case


# Argument objects a user script defines once and passes to every call (first run, resumed run, repeated run): when switched on
# by a check, Problem.sample_kwargs hands out the SAME dict objects for these options instead of fresh ones.
SHARED = {}
SHARED_ON = [False]


def _shared(name, value):
    return SHARED.setdefault(name, value) if SHARED_ON[0] else value


class Problem:
    """Aspire instance + recorders for one case."""

    def __init__(self, case, fault_at=None, flow_seed=None):
        from pbt_flows import AnalyticFlow

        from aspire import Aspire

        self.case = case
        d = case["d"]
        ns = case["ns"]
        xp = self.xp = env.xp_of(ns)
        self.dt = env.native_dtype(ns, case["width"]) if case["width"] else None
        self.lo = np.array([-1.0, 0.0, 2.0][:d])
        self.hi = np.array([2.0, 6.283185307179586, 5.0][:d])
        w = self.hi - self.lo
        self.mu = self.lo + w * np.array([0.55, 0.4, 0.6][:d])
        self.sig = w * np.array([0.21, 0.33, 0.17][:d]) * float(case.get("sharp", 1.0))
        self.wgt = np.array([1.0, np.sqrt(2.0), np.pi / 2][:d])
        self.pm = self.lo + w * np.array([0.3, 0.62, 0.45][:d])
        self.pc = np.array([0.37, 0.11, 0.53][:d]) / w
        self.calls = []          # every likelihood call: dict(x, n, log_prior_attached, value)
        self.prior_calls = []
        self.fault_at = fault_at
        self.n_lik_rows = 0
        me = self

        def log_likelihood(samples, map_fn=None):  # (map_fn: accepted so that Aspire.enable_pool can be used with these callables)
            x = samples.x
            lp_att = samples.log_prior
            rec = {"x": env.to_np(x).astype(np.float64).copy(), "n": int(x.shape[0]) if x.ndim > 1 else 1,
                   "lp": None if lp_att is None else env.to_np(lp_att).astype(np.float64).copy(),
                   "lp_width": None if lp_att is None or not hasattr(lp_att, "dtype") else env.width_of(lp_att)}
            idx = len(me.calls)
            me.calls.append(rec)
            if me.fault_at is not None and idx == me.fault_at:
                raise InjectedFault(f"likelihood call {idx}")
            return me.L(x)

        def log_prior(samples, map_fn=None):
            idx = len(me.prior_calls)
            me.prior_calls.append(int(samples.x.shape[0]))
            if me.fault_at is not None and isinstance(me.fault_at, tuple) and me.fault_at == ("prior", idx):
                raise InjectedFault(f"prior call {idx}")
            return me.P(samples.x)

        self.log_likelihood = log_likelihood
        self.log_prior = log_prior
        # proposal: normal centred in the box; scale chosen so that ~leak of the mass is outside the box (per dim)
        from scipy.stats import norm

        leak = case["leak"]
        if leak <= 0:
            self.flow = AnalyticFlow(d, kind="logitnormal", loc=np.zeros(d), scale=1.2 * np.ones(d), lower=self.lo, upper=self.hi,
                                     seed=case["seed"] if flow_seed is None else flow_seed)
        else:
            per_dim = 1 - (1 - leak) ** (1.0 / d)
            scale = (w / 2) / norm.ppf(1 - per_dim / 2)
            self.flow = AnalyticFlow(d, kind="normal", loc=(self.lo + self.hi) / 2, scale=scale,
                                     seed=case["seed"] if flow_seed is None else flow_seed)
        params = [f"p{i}" for i in range(d)]
        self.params = params
        self.aspire = Aspire(
            log_likelihood=log_likelihood, log_prior=log_prior, dims=d, parameters=params,
            prior_bounds={p: [float(self.lo[i]), float(self.hi[i])] for i, p in enumerate(params)},
            periodic_parameters=[params[-1]] if case["pre"] == "periodic" and d >= 1 else None,
            flow=self.flow, flow_backend="pbt_analytic", xp=xp, dtype=self.dt)

    # deterministic, row-injective densities in the sampler's namespace
    def L(self, x):
        xp = self.xp
        c = lambda a: xp.asarray(a, dtype=x.dtype)  # noqa: E731
        return -0.5 * xp.sum(c(self.wgt) * ((x - c(self.mu)) / c(self.sig)) ** 2, axis=-1)

    def P(self, x):
        xp = self.xp
        c = lambda a: xp.asarray(a, dtype=x.dtype)  # noqa: E731
        inside = xp.all((x >= c(self.lo)) & (x <= c(self.hi)), axis=-1)
        val = -xp.sum(c(self.pc) * xp.abs(x - c(self.pm)), axis=-1) - 1.25
        return xp.where(inside, val, xp.asarray(-np.inf, dtype=x.dtype))

    def L_ref(self, x64):
        return -0.5 * np.sum(self.wgt * ((x64 - self.mu) / self.sig) ** 2, axis=-1)

    def P_ref(self, x64):
        inside = np.all((x64 >= self.lo) & (x64 <= self.hi), axis=-1)
        return np.where(inside, -np.sum(self.pc * np.abs(x64 - self.pm), axis=-1) - 1.25, -np.inf)

    def recompute(self, x_arr):
        """L and pi evaluated by the same callables on the stored coordinates (same namespace, same dtype)."""
        return env.to_np(self.L(x_arr)), env.to_np(self.P(x_arr))

    def sample_kwargs(self, checkpoint_cb=None, resume_from=None):
        case = self.case
        s = case["sampler"]
        pre = case["pre"]
        kw = {"n_samples": case["n"], "sampler": s}
        if s != "importance":
            if pre == "none":
                kw["preconditioning"] = "none"
            else:
                kw["preconditioning"] = "default"
                pk = {"affine_transform": "affine" in pre, "bounded_to_unbounded": ("logit" in pre or "probit" in pre)}
                if "probit" in pre:
                    pk["bounded_transform"] = "probit"
                if pk["bounded_to_unbounded"] and case["seed"] % 2 == 0:
                    # a wide clipping margin of the bounded map: particles within 20% of a bound are moved by the round trip
                    pk["eps"] = 0.2
                kw["preconditioning_kwargs"] = _shared("preconditioning_kwargs", pk)
        elif pre == "default":
            kw["preconditioning"] = "default"
        if s in ("smc", "emcee_smc"):
            kw["return_history"] = True
            kw["adaptive"] = case.get("adaptive", True)
            if not kw["adaptive"]:
                kw["n_steps"] = case["n_steps"]
            nf = case.get("n_final")
            if nf == "smaller":
                kw["n_final_samples"] = max(1, case["n"] // 2)
            elif nf == "larger":
                kw["n_final_samples"] = case["n"] + 5
            if s == "smc":
                kw["rng"] = np.random.default_rng(case["seed"])
                kw["sampler_kwargs"] = {"n_steps": case["kernel_steps"], "step_fn": "rw"}
                if nf and case["seed"] % 2 == 0:
                    # option read by SMCSampler.sample: a different number of kernel steps for the enlarged final population
                    kw["sampler_kwargs"]["n_final_steps"] = case["kernel_steps"] + 2
            else:
                kw["sampler_kwargs"] = {"nsteps": case["kernel_steps"], "progress": False}
            kw["sampler_kwargs"] = _shared("sampler_kwargs", kw["sampler_kwargs"])
            if checkpoint_cb is not None:
                kw["checkpoint_callback"] = checkpoint_cb
                kw["checkpoint_every"] = case.get("ckpt_every") or 1
            if resume_from is not None:
                kw["resume_from"] = resume_from
        elif s == "minipcn":
            kw.update(n_steps=case["kernel_steps"] + 2, rng=np.random.default_rng(case["seed"]), step_fn="rw")
            opt = case["seed"] % 4  # chain post-processing options of the MCMC sampler
            if opt == 1:
                kw.update(thin=2)
            elif opt == 2:
                kw.update(burnin=1)
            elif opt == 3:
                kw.update(last_step_only=True)
        elif s == "emcee":
            kw.update(nsteps=case["kernel_steps"] + 2)
            if case["seed"] % 2:
                kw.update(discard=1)
        return kw

    def run(self, checkpoint_cb=None, resume_from=None):
        import emcee
        import minipcn

        minipcn.reset()
        emcee.reset()
        np.random.seed(self.case["seed"] % 2**32)
        minipcn.step_budget = 500
        self.rejected = None
        try:
            out = self.aspire.sample_posterior(**self.sample_kwargs(checkpoint_cb, resume_from))
        except ValueError as e:
            # documented in SMCSampler.sample: "Raises ValueError ... if log probabilities contain NaN values"
            # (reached e.g. when affine preconditioning is fitted to a population that collapsed onto one particle)
            if "NaN values" in str(e):
                self.rejected = str(e)
                return None, None
            raise
        finally:
            minipcn.reset()
            emcee.reset()
        if isinstance(out, tuple):
            return out
        return out, None


class InjectedFault(Exception):
    pass
