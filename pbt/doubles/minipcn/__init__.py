"""Harness-owned stand-in for the third-party `minipcn` package (absent from the sandbox).

Implements exactly the API surface aspire uses:
    Sampler(log_prob_fn, step_fn, rng, dims, target_acceptance_rate, xp=None).sample(z, n_steps) -> (chain, history)
with a vectorised symmetric random-walk Metropolis kernel, which leaves invariant whatever
density `log_prob_fn` describes.  It draws only from the `rng` it is given and keeps no state
between calls.  step_fn == "frozen" evaluates the target once and returns its input unchanged.

Observation hooks for the harness (module globals, reset by the harness per case):
    observer(z, logp)   called for every batch the kernel evaluated
    INVOCATIONS         number of Sampler.sample calls
    step_budget         raise StepBudgetExceeded when INVOCATIONS exceeds it
"""
from dataclasses import dataclass, field

import numpy as np
from array_api_compat import array_namespace

__version__ = "0.0-verif-double"

observer = None
INVOCATIONS = 0
step_budget = None
scale = 0.5


class StepBudgetExceeded(RuntimeError):
    pass


def reset():
    global observer, INVOCATIONS, step_budget, scale
    observer = None
    INVOCATIONS = 0
    step_budget = None
    scale = 0.5


@dataclass
class _History:
    acceptance_rate: list = field(default_factory=list)


def _np(a):
    if hasattr(a, "detach"):
        a = a.detach().cpu().numpy()
    return np.asarray(a)


class Sampler:
    def __init__(self, log_prob_fn, step_fn="tpcn", rng=None, dims=None,
                 target_acceptance_rate=0.234, xp=None, **kwargs):
        self.log_prob_fn = log_prob_fn
        self.step_fn = step_fn
        self.rng = rng if rng is not None else np.random.default_rng()
        self.dims = dims
        self.target_acceptance_rate = target_acceptance_rate
        self.xp = xp

    def _eval(self, z):
        lp = self.log_prob_fn(z)
        if observer is not None:
            observer(z, lp)
        return lp

    def sample(self, z, n_steps=1):
        global INVOCATIONS
        INVOCATIONS += 1
        if step_budget is not None and INVOCATIONS > step_budget:
            raise StepBudgetExceeded(f"kernel invoked {INVOCATIONS} times (budget {step_budget})")
        xp = array_namespace(z)
        hist = _History()
        logp = self._eval(z)
        chain = [z]
        if self.step_fn == "frozen":
            hist.acceptance_rate.append(0.0)
            chain.append(z)
            return xp.stack(chain), hist
        zn = _np(z).astype(np.float64)
        sd = zn.std(axis=0)
        sd = np.where(np.isfinite(sd) & (sd > 0), sd, 0.1)
        for _ in range(int(n_steps)):
            noise = np.asarray(self.rng.normal(size=zn.shape)) * (scale * sd)
            if hasattr(self.rng, "integers"):
                # one small bounded-integer draw per step (a random reflection of the symmetric proposal): such draws consume
                # 32-bit halves of the generator's 64-bit words, so the generator's buffered state matters for reproducibility
                noise = noise * (1.0 - 2.0 * float(np.asarray(self.rng.integers(0, 2))))
            logu = np.log(np.asarray(self.rng.uniform(size=zn.shape[0])))
            prop = z + xp.asarray(noise, dtype=z.dtype)
            lp2 = self._eval(prop)
            d = _np(lp2).astype(np.float64) - _np(logp).astype(np.float64)
            acc = np.where(np.isnan(d), False, logu < d)
            acc_x = xp.asarray(acc)
            z = xp.where(acc_x[:, None], prop, z)
            logp = xp.where(acc_x, lp2, logp)
            hist.acceptance_rate.append(float(acc.mean()))
            chain.append(z)
        return xp.stack(chain), hist
