"""Harness-owned stand-in for the third-party `orng` package (absent from the sandbox):
ArrayRNG(backend, seed) as a thin wrapper around numpy.random.Generator.  Constructions
are logged so that checks can see when aspire creates a fresh, unseeded generator."""
import numpy as np

__version__ = "0.0-verif-double"

CONSTRUCTIONS = []


class ArrayRNG:
    def __init__(self, backend=None, seed=None, **kwargs):
        CONSTRUCTIONS.append({"backend": backend, "seed": seed})
        self.backend = backend
        self._gen = np.random.default_rng(seed)

    def normal(self, *a, **k):
        return self._gen.normal(*a, **k)

    def uniform(self, *a, **k):
        return self._gen.uniform(*a, **k)

    def random(self, *a, **k):
        return self._gen.random(*a, **k)

    def choice(self, *a, **k):
        return self._gen.choice(*a, **k)

    def integers(self, *a, **k):
        return self._gen.integers(*a, **k)
