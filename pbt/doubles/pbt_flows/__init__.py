"""Analytic proposal doubles (subclasses of aspire.flows.base.Flow).

They are handed to Aspire(flow=...), the documented "flow object, if it already exists" route,
and are registered in the `aspire.flows` entry-point group (pbt_flows-0.1.dist-info next to this
package) so that Aspire.load_flow / resume_from_file can rebuild them from a checkpoint file.

AnalyticFlow : independent normal / logit-normal / uniform densities with exact log q, written
               with the harness's own float64 formulas (no aspire transform is involved).
TableFlow    : hands out a generated list of points (x_i = (i, 0, ...)) with generated log q_i;
               log_prob is a nearest-index table lookup, i.e. a piecewise-constant density.
Both log every (x, log_q) batch they hand out in `.handed`.
"""
from __future__ import annotations

import math

import array_api_compat.numpy as _np_xp
import numpy as np

from aspire.flows.base import Flow
from aspire.history import FlowHistory


def _to_np(a):
    if hasattr(a, "detach"):
        a = a.detach().cpu().numpy()
    return np.asarray(a, dtype=np.float64)


def _norm_logpdf(y, loc, scale):
    return -0.5 * ((y - loc) / scale) ** 2 - np.log(scale) - 0.5 * math.log(2 * math.pi)


class AnalyticFlow(Flow):
    xp = _np_xp

    def __init__(self, dims, device=None, data_transform=None, kind="normal", loc=None, scale=None,
                 lower=None, upper=None, seed=0, dtype=None):
        super().__init__(dims, device=device, data_transform=data_transform)
        self.kind = str(kind)
        self.loc = np.zeros(dims) if loc is None else np.asarray(loc, dtype=np.float64).reshape(dims)
        self.scale = np.ones(dims) if scale is None else np.asarray(scale, dtype=np.float64).reshape(dims)
        self.lower = None if lower is None else np.asarray(lower, dtype=np.float64).reshape(dims)
        self.upper = None if upper is None else np.asarray(upper, dtype=np.float64).reshape(dims)
        self.seed = int(seed)
        self.dtype = dtype
        self.gen = np.random.default_rng(self.seed)
        self.handed = []
        self.n_log_prob_calls = 0

    # -- densities ---------------------------------------------------------
    def _log_q(self, x):
        x = _to_np(x)
        if x.ndim == 1:
            x = x.reshape(-1, self.dims)
        with np.errstate(all="ignore"):
            if self.kind == "normal":
                return _norm_logpdf(x, self.loc, self.scale).sum(-1)
            w = self.upper - self.lower
            u = (x - self.lower) / w
            inside = ((u > 0) & (u < 1)).all(-1)
            if self.kind == "uniform":
                val = np.full(x.shape[0], -np.log(w).sum())
                inside = ((u >= 0) & (u <= 1)).all(-1)
            elif self.kind == "logitnormal":
                y = np.log(u) - np.log1p(-u)
                val = (_norm_logpdf(y, self.loc, self.scale) - np.log(u) - np.log1p(-u) - np.log(w)).sum(-1)
            else:
                raise ValueError(self.kind)
            return np.where(inside, val, -np.inf)

    def log_prob(self, x, xp=None):
        self.n_log_prob_calls += 1
        return self._log_q(x)

    def sample_and_log_prob(self, n_samples, xp=None):
        z = self.gen.standard_normal((int(n_samples), self.dims))
        if self.kind == "normal":
            x = self.loc + self.scale * z
        elif self.kind == "uniform":
            from scipy.special import ndtr

            x = self.lower + (self.upper - self.lower) * ndtr(z)
        else:
            y = self.loc + self.scale * z
            u = 1.0 / (1.0 + np.exp(-y))
            x = self.lower + (self.upper - self.lower) * u
        lq = self._log_q(x)
        self.handed.append((x.copy(), lq.copy()))
        return x, lq

    def sample(self, n_samples, xp=None):
        return self.sample_and_log_prob(n_samples)[0]

    def fit(self, x, **kwargs):
        x = _to_np(x)
        if self.kind == "normal":
            self.loc = x.mean(0)
            self.scale = 1.5 * x.std(0) + 1e-3
        self.n_fits = getattr(self, "n_fits", 0) + 1
        return FlowHistory(training_loss=[0.0], validation_loss=[0.0])

    # -- persistence -------------------------------------------------------
    def _config(self):
        cfg = {"dims": int(self.dims), "kind": self.kind, "loc": self.loc, "scale": self.scale,
               "seed": self.seed}
        if self.lower is not None:
            cfg["lower"] = self.lower
            cfg["upper"] = self.upper
        return cfg

    def save(self, h5_file, path="flow"):
        from aspire.utils import recursively_save_to_h5_file

        grp = h5_file.create_group(path)
        recursively_save_to_h5_file(grp, "config", self._config())

    @classmethod
    def load(cls, h5_file, path="flow"):
        from aspire.utils import load_from_h5_file

        cfg = load_from_h5_file(h5_file[path], "config")
        return cls(**cfg)


class TableFlow(Flow):
    xp = _np_xp

    def __init__(self, dims, device=None, data_transform=None, log_q=None, dtype=None):
        super().__init__(dims, device=device, data_transform=data_transform)
        self.table = np.asarray(log_q, dtype=np.float64).reshape(-1)
        self.cursor = 0
        self.handed = []
        self.dtype = dtype

    def points(self, idx):
        x = np.zeros((len(idx), self.dims))
        x[:, 0] = idx
        return x

    def index_of(self, x):
        x = _to_np(x)
        if x.ndim == 1:
            x = x.reshape(-1, self.dims)
        with np.errstate(all="ignore"):
            i = np.rint(x[:, 0])
        i = np.where(np.isfinite(i), i, 0)
        return np.clip(i, 0, len(self.table) - 1).astype(int)

    def log_prob(self, x, xp=None):
        return self.table[self.index_of(x)]

    def sample_and_log_prob(self, n_samples, xp=None):
        idx = (self.cursor + np.arange(int(n_samples))) % len(self.table)
        self.cursor = int((self.cursor + n_samples) % len(self.table))
        x = self.points(idx)
        lq = self.table[idx]
        self.handed.append((x.copy(), lq.copy()))
        return x, lq

    def sample(self, n_samples, xp=None):
        return self.sample_and_log_prob(n_samples)[0]

    def fit(self, x, **kwargs):
        return FlowHistory(training_loss=[0.0], validation_loss=[0.0])

    def save(self, h5_file, path="flow"):
        from aspire.utils import recursively_save_to_h5_file

        grp = h5_file.create_group(path)
        recursively_save_to_h5_file(grp, "config", {"dims": int(self.dims), "log_q": self.table})

    @classmethod
    def load(cls, h5_file, path="flow"):
        from aspire.utils import load_from_h5_file

        cfg = load_from_h5_file(h5_file[path], "config")
        return cls(**cfg)
