"""Harness-owned stand-in for the third-party `emcee` package (absent from the sandbox).

EnsembleSampler with the API surface aspire uses (run_mcmc, get_chain, acceptance_fraction,
get_autocorr_time), driven by a vectorised random-walk Metropolis kernel.  Like emcee it is
given no generator by aspire; it draws from numpy's global legacy state so the harness can
seed it with numpy.random.seed."""
import numpy as np

__version__ = "0.0-verif-double"

observer = None
INVOCATIONS = 0
scale = 0.5


def reset():
    global observer, INVOCATIONS, scale
    observer = None
    INVOCATIONS = 0
    scale = 0.5


def _np(a):
    if hasattr(a, "detach"):
        a = a.detach().cpu().numpy()
    return np.asarray(a)


class EnsembleSampler:
    def __init__(self, nwalkers, ndim, log_prob_fn, args=None, kwargs=None, vectorize=False,
                 moves=None, **extra):
        self.nwalkers = nwalkers
        self.ndim = ndim
        self.log_prob_fn = log_prob_fn
        self.args = tuple(args or ())
        self.kwargs = dict(kwargs or {})
        self.vectorize = vectorize
        self.moves = moves
        self._chain = []
        self._accepted = np.zeros(nwalkers)
        self._n = 0

    def _eval(self, z):
        if self.vectorize:
            res = self.log_prob_fn(z, *self.args, **self.kwargs)
        else:
            res = [self.log_prob_fn(zi, *self.args, **self.kwargs) for zi in z]
        if observer is not None:
            observer(z, res, self.args)
        return np.array([float(v) for v in _np(res).reshape(-1)], dtype=np.float64)

    def run_mcmc(self, initial_state, nsteps=None, progress=False, **kw):
        global INVOCATIONS
        INVOCATIONS += 1
        z = np.array(_np(initial_state), dtype=np.float64)
        if z.shape != (self.nwalkers, self.ndim):
            raise ValueError("incompatible input dimensions")
        logp = self._eval(z)
        sd = z.std(axis=0)
        sd = np.where(np.isfinite(sd) & (sd > 0), sd, 0.1)
        for _ in range(int(nsteps)):
            prop = z + np.random.standard_normal(z.shape) * (scale * sd)
            logu = np.log(np.random.uniform(size=self.nwalkers))
            lp2 = self._eval(prop)
            d = lp2 - logp
            acc = np.where(np.isnan(d), False, logu < d)
            z = np.where(acc[:, None], prop, z)
            logp = np.where(acc, lp2, logp)
            self._accepted += acc
            self._n += 1
            self._chain.append(z.copy())
        return z, logp, None

    @property
    def acceptance_fraction(self):
        return self._accepted / max(self._n, 1)

    def get_autocorr_time(self, quiet=False, discard=0, **kw):
        return np.ones(self.ndim)

    def get_chain(self, flat=False, discard=0, thin=1, **kw):
        c = np.array(self._chain)[discard::thin]
        if flat:
            return c.reshape(-1, self.ndim)
        return c
