"""Table-driven SMC runs shared by C06, C07, C08, C18 (and reused by C09/C11/C12).

The proposal is pbt_flows.TableFlow and the user likelihood is a table lookup on the same
index, so the initial population's (log L + log pi - log q) is an arbitrary *generated* vector.
Two routes are driven, both running aspire's real loop, schedule, resampling and mutate code:
  route "api"  : Aspire.sample_posterior(sampler="smc") (MiniPCNSMC + kernel double)
  route "base" : a subclass of MiniPCNSMC whose sample() forwards `beta_tolerance` and
                 `store_sample_history` to the documented SMCSampler.sample signature (no concrete
                 sampler forwards them, so this is the only way to reach them).
"""
from __future__ import annotations

import math

import numpy as np
from hypothesis import strategies as st

from . import env, refmath

_unit = st.floats(-1.0, 1.0, allow_nan=False, width=32)


@st.composite
def table_case(draw, adaptive=None, allow_f32=True, max_n=120, kmin=-3):
    ns = draw(st.sampled_from(["numpy", "numpy", "torch", "jax"]))
    width = draw(st.sampled_from(["float64", "float64", "float64", "float32"] if allow_f32 else ["float64"]))
    n = draw(st.one_of(st.integers(2, 10), st.integers(2, 40), st.integers(2, max_n)))
    kind = draw(st.sampled_from(["generic", "generic", "ties", "dominant", "flat", "peaked"]))
    if width == "float32":
        k = draw(st.integers(min(kmin, 1), 1))
    elif kind == "peaked":
        k = draw(st.integers(4, 8))
    else:
        k = draw(st.integers(kmin, 3))
    scale = 10.0**k
    if kind == "flat":
        v = draw(_unit)
        ll = [v * scale] * n
    elif kind == "ties":
        pool = draw(st.lists(_unit, min_size=2, max_size=3))
        ll = [scale * t for t in draw(st.lists(st.sampled_from(pool), min_size=n, max_size=n))]
    else:
        ll = [scale * t for t in draw(st.lists(_unit, min_size=n, max_size=n))]
        if kind == "dominant":
            j = draw(st.integers(0, n - 1))
            ll[j] += scale * draw(st.floats(2.0, 50.0, width=32))
    lq = draw(st.lists(_unit, min_size=n, max_size=n))
    if draw(st.integers(0, 5)) == 0 and n > 2:
        m = draw(st.integers(1, n - 2))
        for i in draw(st.lists(st.integers(0, n - 1), min_size=m, max_size=m, unique=True)):
            ll[i] = float("-inf")
    ad = draw(st.booleans()) if adaptive is None else adaptive
    case = {
        "ns": ns, "width": width, "n": n, "kind": kind, "dims": draw(st.integers(1, 3)),
        "ll": ll, "lq": lq,
        "kernel": draw(st.sampled_from(["frozen", "rw", "rw"])),
        "kernel_steps": draw(st.integers(1, 3)),
        "adaptive": ad,
        "seed": draw(st.integers(0, 2**31 - 1)),
        "route": draw(st.sampled_from(["api", "api", "base"])),
    }
    if ad:
        if draw(st.booleans()):
            a = draw(st.floats(0.02, 0.9))
            b = draw(st.floats(0.02, 0.97))
            lo, hi = min(a, b), max(a, b)
            if hi - lo < 1e-3:
                hi = min(0.99, lo + 0.05)
            case["target"] = [lo, hi]
            case["rate"] = draw(st.sampled_from([0.5, 1.0, 2.0]))
        else:
            case["target"] = draw(st.floats(0.02, 0.98))
        opt = draw(st.sampled_from(["none", "none", "min_step", "max_n_steps", "both"]))
        if opt in ("min_step", "both"):
            case["min_step"] = draw(st.sampled_from([0.7, 0.5, 0.3, 0.25, 0.1, 0.03, 0.01, 1e-3]))
        if opt in ("max_n_steps", "both"):
            case["max_n_steps"] = draw(st.integers(1, 40) if opt == "max_n_steps" else st.integers(1, 6))
        if draw(st.integers(0, 3)) == 0:
            case["n_steps"] = draw(st.integers(1, 20))  # ignored by an adaptive schedule
        if case["route"] == "base":
            case["beta_tolerance"] = draw(st.sampled_from([1e-1, 1e-2, 1e-3, 1e-4, 1e-6, 1e-8]))
    if case["route"] == "base" and draw(st.integers(0, 5)) == 0:
        case["store_history"] = False  # populations are then not recorded (documented option of the base signature)
    if ad:
        pass
    else:
        big = 300 if ns == "numpy" else 40
        case["n_steps"] = draw(st.one_of(st.integers(1, 12), st.integers(1, 30), st.integers(1, big)))
    if case["route"] == "api" and draw(st.integers(0, 2)) == 0:
        # the sampling call's output-namespace option: the result is converted after the run
        case["out_ns"] = draw(st.sampled_from(["numpy", "torch", "jax"]))
    if case["route"] == "base" and draw(st.integers(0, 3)) == 0:
        # the sampler object has already completed an unrelated run (different schedule / target) before the run under test
        case["reuse"] = draw(st.sampled_from(["ramp", "scalar", "fixed"]))
    nf = draw(st.sampled_from(["none", "none", "same", "smaller", "larger"]))
    if nf == "same":
        case["n_final"] = n
    elif nf == "smaller":
        case["n_final"] = draw(st.integers(1, n))
    elif nf == "larger":
        case["n_final"] = n + draw(st.integers(1, 30))
    return case


def tables(case):
    ll = np.array([float(v) for v in case["ll"]], dtype=np.float64)
    lq = np.array([float(v) for v in case["lq"]], dtype=np.float64)
    return ll, lq


def tolerance_of(case):
    return float(case.get("beta_tolerance", 1e-6))


def step_floor(case):
    """Smallest per-iteration progress any conforming run can make (for the step budget)."""
    tol = tolerance_of(case)
    return tol / 2


WRAPPER_ACTIVE = [True]


def build(case, likelihood_wrapper=None, rng=None, flow=None):
    """Return (aspire_or_None, sampler_factory-bound call) pieces for a table run."""
    from pbt_flows import TableFlow

    xp = env.xp_of(case["ns"])
    dt = env.native_dtype(case["ns"], case["width"])
    ll_tab, lq_tab = tables(case)
    dims = case["dims"]
    if flow is None:
        flow = TableFlow(dims, log_q=lq_tab)

    def log_likelihood(samples):
        idx = flow.index_of(samples.x)
        return xp.asarray(ll_tab[idx], dtype=samples.x.dtype)

    def log_prior(samples):
        return xp.zeros(samples.x.shape[0], dtype=samples.x.dtype)

    if likelihood_wrapper is not None:
        raw, wrapped = log_likelihood, likelihood_wrapper(log_likelihood)

        def log_likelihood(samples):  # the wrapper observes only the run under test, not a preliminary run on the same sampler
            return wrapped(samples) if WRAPPER_ACTIVE[0] else raw(samples)
    return xp, dt, flow, log_likelihood, log_prior


def sample_kwargs(case):
    kw = {"adaptive": bool(case["adaptive"])}
    for src, dst in (("n_steps", "n_steps"), ("min_step", "min_step"), ("max_n_steps", "max_n_steps"),
                     ("rate", "target_efficiency_rate"), ("n_final", "n_final_samples")):
        if src in case:
            kw[dst] = case[src]
    if "target" in case:
        t = case["target"]
        kw["target_efficiency"] = tuple(t) if isinstance(t, (list, tuple)) else float(t)
    kw["sampler_kwargs"] = {"n_steps": int(case["kernel_steps"]),
                            "step_fn": "frozen" if case["kernel"] == "frozen" else "rw"}
    return kw


def iteration_budget(case):
    if not case["adaptive"]:
        return int(case["n_steps"]) + 3
    if "max_n_steps" in case:
        return int(case["max_n_steps"]) + 3
    return 400  # inconclusive beyond this; progress is checked per step instead


def make_base_sampler_class():
    from aspire.samplers.smc.base import SMCSampler
    from aspire.samplers.smc.minipcn import MiniPCNSMC

    class ToleranceSMC(MiniPCNSMC):
        """MiniPCNSMC whose sample() forwards the two options of the documented base signature
        that no concrete sampler forwards."""

        def sample(self, n_samples, sampler_kwargs=None, rng=None, **kwargs):
            from aspire.utils import determine_backend_name

            self.sampler_kwargs = dict(sampler_kwargs or {})
            self.sampler_kwargs.setdefault("n_steps", 5 * self.dims)
            self.sampler_kwargs.setdefault("target_acceptance_rate", 0.234)
            self.sampler_kwargs.setdefault("step_fn", "tpcn")
            self.backend_str = determine_backend_name(xp=self.xp)
            if rng is not None:
                self.rng = rng
            return SMCSampler.sample.__wrapped__(self, n_samples, **kwargs)

    return ToleranceSMC


class RunResult:
    pass


def run(case, ctx=None, likelihood_wrapper=None, extra_kwargs=None, flow=None, want_sampler=False):
    """Execute the run described by `case`.  Returns RunResult with .samples, .history, .error,
    .budget_hit, .sampler, .aspire, .kernel_invocations."""
    import minipcn

    from aspire import Aspire

    xp, dt, flow, ll_fn, lp_fn = build(case, likelihood_wrapper, flow=flow)
    minipcn.reset()
    minipcn.step_budget = iteration_budget(case) + 1
    params = [f"p{i}" for i in range(case["dims"])]
    kw = sample_kwargs(case)
    if extra_kwargs:
        kw.update(extra_kwargs)
    rng = np.random.default_rng(case["seed"])
    res = RunResult()
    res.flow = flow
    res.budget_hit = False
    res.error = None
    res.samples = res.history = None
    try:
        if case["route"] == "api":
            a = Aspire(log_likelihood=ll_fn, log_prior=lp_fn, dims=case["dims"], parameters=params,
                       flow=flow, flow_backend="pbt_table", xp=xp, dtype=dt)
            res.aspire = a
            if case.get("out_ns"):
                kw["xp"] = env.xp_of(case["out_ns"])
            res.samples, res.history = a.sample_posterior(
                n_samples=case["n"], sampler="smc", return_history=True, preconditioning="none",
                rng=rng, **kw)
            res.sampler = a.sampler
        else:
            cls = make_base_sampler_class()
            s = cls(log_likelihood=ll_fn, log_prior=lp_fn, dims=case["dims"], prior_flow=flow, xp=xp,
                    dtype=dt, parameters=params, rng=rng)
            res.sampler = s
            res.aspire = None
            if "beta_tolerance" in case:
                kw["beta_tolerance"] = case["beta_tolerance"]
            if case.get("store_history") is False:
                kw["store_sample_history"] = False
            res.reused = False
            if case.get("reuse") and "resume_from" not in (extra_kwargs or {}):
                prev = {"ramp": {"adaptive": True, "target_efficiency": (0.2, 0.9)},
                        "scalar": {"adaptive": True, "target_efficiency": 0.6},
                        "fixed": {"adaptive": False, "n_steps": 3}}[case["reuse"]]
                prev["sampler_kwargs"] = kw["sampler_kwargs"]
                WRAPPER_ACTIVE[0] = False
                try:
                    s.sample(case["n"], **prev)
                    res.reused = True
                except minipcn.StepBudgetExceeded:
                    pass
                except ValueError as e:
                    if "NaN values" not in str(e):
                        raise
                finally:
                    WRAPPER_ACTIVE[0] = True
                minipcn.reset()
                minipcn.step_budget = iteration_budget(case) + 1
            try:
                res.samples = s.sample(case["n"], **kw)
            finally:
                res.history = s.history
    except minipcn.StepBudgetExceeded:
        res.budget_hit = True
        if res.history is None and getattr(res, "sampler", None) is None and getattr(res, "aspire", None) is not None:
            res.sampler = res.aspire.sampler
        if res.history is None and getattr(res, "sampler", None) is not None:
            res.history = res.sampler.history
    except Exception as e:  # noqa: BLE001
        res.error = e
        if res.history is None:
            smp = getattr(res, "sampler", None) or (res.aspire.sampler if getattr(res, "aspire", None) else None)
            if smp is not None:
                res.history = smp.history
                res.sampler = smp
    res.kernel_invocations = minipcn.INVOCATIONS
    minipcn.reset()
    return res


# ---- reference recomputation from a recorded history -------------------------

def pop_log_w(pop):
    """(ll + lp - lq) of a stored population, float64."""
    ll = env.to_np(pop.log_likelihood).astype(np.float64)
    lp = env.to_np(pop.log_prior).astype(np.float64)
    lq = env.to_np(pop.log_q).astype(np.float64)
    with np.errstate(all="ignore"):
        return ll + lp - lq


def incr(pop_lw, b_old, b_new):
    with np.errstate(all="ignore"):
        return (b_new - b_old) * pop_lw


def ess_at(pop_lw, b_old, b_new):
    return refmath.ess(incr(pop_lw, b_old, b_new))


def floats(seq):
    return [float(env.to_np(v)) for v in seq]


def target_at(case, beta_prev):
    t = case.get("target", 0.5)
    if isinstance(t, (list, tuple)):
        return t[0] + (t[1] - t[0]) * (beta_prev ** float(case.get("rate", 1.0)))
    return float(t)


def ess_rtol(case):
    return 64 * case["n"] * refmath.eps_of(case["width"])


def run_failed(case, r, ctx, labels):
    """C06 owns 'the run raised / did not finish'. Other properties skip such runs (counted)."""
    if getattr(r, "reused", False):
        labels.append("reused-sampler")
    if case.get("out_ns"):
        labels.append("out-ns:" + case["out_ns"])
    if r.error is not None:
        from .runner import aspire_frame

        if aspire_frame(r.error) is None:
            raise r.error
        labels.append("run-raised(skipped; C06 decides)")
        return True
    if r.budget_hit:
        labels.append("run-over-budget(skipped)")
        return True
    return False
