"""Numeric environment shared by every check process (imported for its side effects)."""
import logging
import os
import warnings

os.environ.setdefault("TORCHDYNAMO_DISABLE", "1")
os.environ.setdefault("SCIPY_ARRAY_API", "1")
os.environ.setdefault("JAX_PLATFORMS", "cpu")

warnings.filterwarnings("ignore")
logging.disable(logging.CRITICAL)

import numpy as np  # noqa: E402

np.seterr(all="ignore")

_torch = None
_jnp = None


def torch():
    global _torch
    if _torch is None:
        import torch as t

        t.set_num_threads(1)
        _torch = t
    return _torch


def jax():
    import jax as j

    j.config.update("jax_enable_x64", True)
    return j


def xp_of(name):
    """array namespace objects exactly as aspire's own tests/conftest obtain them."""
    if name == "numpy":
        import array_api_compat.numpy as xp
    elif name == "torch":
        torch()
        import array_api_compat.torch as xp
    elif name == "jax":
        jax()
        import jax.numpy as xp
    else:
        raise ValueError(name)
    return xp


def native_dtype(ns, width):
    """float32/float64 dtype object native to the namespace."""
    if width is None:
        return None
    if ns == "torch":
        return getattr(torch(), width)
    if ns == "jax":
        jax()
        import jax.numpy as jnp

        return jnp.dtype(width)
    return np.dtype(width)


def to_np(a):
    """Harness-owned conversion to a NumPy array (detaches torch tensors)."""
    if a is None:
        return None
    if hasattr(a, "detach"):
        a = a.detach().cpu().numpy()
    return np.asarray(a)


def width_of(a):
    """'float32' / 'float64' / other dtype name of an array in any namespace."""
    s = str(a.dtype)
    return s.split(".")[-1]
