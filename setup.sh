#!/usr/bin/env bash
# Offline setup: make sure hypothesis (deciding engine) and jsonschema (evidence validation)
# are importable by /venv/bin/python; install from the local wheelhouse into /verif/.deps if not.
HERE="$(cd "$(dirname "${BASH_SOURCE[0]}")" && pwd)"
PY="${ASPIRE_PYTHON:-/venv/bin/python}"
WH=/opt/veriftools/wheels
mkdir -p "$HERE/.deps"
export PYTHONPATH="$HERE/.deps${PYTHONPATH:+:$PYTHONPATH}"
need=""
"$PY" -c "import hypothesis" 2>/dev/null || need="$need hypothesis"
"$PY" -c "import jsonschema" 2>/dev/null || need="$need jsonschema"
if [ -n "$need" ]; then
  PIP_NO_INDEX=1 "$PY" -m pip install --quiet --no-index --find-links "$WH" --target "$HERE/.deps" $need || {
    echo "setup: offline install of$need failed" >&2; }
fi
"$PY" -c "import hypothesis; print('hypothesis', hypothesis.__version__)" || exit 2
"$PY" -c "import jsonschema; print('jsonschema', jsonschema.__version__)" || echo "setup: jsonschema unavailable, built-in evidence validation will be used"
mkdir -p "$HERE/evidence" "$HERE/replays"
exit 0
